//! Conversions of the FFI layer: `enum_convert` enums (exhaustive), option records, partial records
//! (all subsets), ISO records, error conversion, and the `I128Nanoseconds` split.

use super::capi::{fk, fr, Out};
use super::*;
use crate::refm::civil::MAX_INSTANT;
use crate::run::{guard, Ctx, Outcome, SubCheck};
use diplomat_runtime::DiplomatOption;
use icu_calendar::any_calendar::AnyCalendarKind as IcuKind;
use serde::{Deserialize, Serialize};
use temporal_capi::calendar::ffi as fcal;
use temporal_capi::duration::ffi as fdur;
use temporal_capi::error::ffi as ferr;
use temporal_capi::instant::ffi as finst;
use temporal_capi::iso::ffi as fiso;
use temporal_capi::options::ffi as fopt;
use temporal_capi::plain_date::ffi as fdate;
use temporal_capi::plain_date_time::ffi as fdt;
use temporal_capi::plain_time::ffi as ftime;
use temporal_rs::error::ErrorKind;
use temporal_rs::partial::{PartialDate, PartialDateTime, PartialDuration, PartialTime};
use temporal_rs::primitive::FiniteF64;
use temporal_rs::{Calendar, Instant, MonthCode, TinyAsciiStr};

fn dopt<T>(o: Option<T>) -> DiplomatOption<T> {
    o.into()
}

// ---------------------------------------------------------------------------------------------
// enums

/// one row: (variant name, ffi -> core Debug text, core -> ffi discriminant, expected ffi discriminant, core Debug text)
pub struct Row {
    pub name: &'static str,
    pub ffi_to_core: String,
    pub core_to_ffi: i64,
    pub ffi_disc: i64,
    pub core_name: String,
}

/// builds the rows of one enum; the inner `match` without wildcard makes the list exhaustive over the
/// FFI enum at compile time
macro_rules! rows {
    ($f:ty, $c:ty, [$($v:ident),* $(,)?]) => {{
        #[allow(dead_code)]
        fn exhaustive(v: $f) -> u32 {
            match v { $(<$f>::$v => line!(),)* }
        }
        let mut out: Vec<Row> = vec![];
        $(
            let to_core: $c = <$c>::from(<$f>::$v);
            let to_ffi: $f = <$f>::from(<$c>::$v);
            out.push(Row {
                name: stringify!($v),
                ffi_to_core: format!("{:?}", to_core),
                core_to_ffi: to_ffi as i64,
                ffi_disc: <$f>::$v as i64,
                core_name: format!("{:?}", <$c>::$v),
            });
        )*
        out
    }};
}

pub const ENUMS: [&str; 13] = [
    "ErrorKind",
    "ArithmeticOverflow",
    "Disambiguation",
    "DisplayCalendar",
    "DisplayOffset",
    "DisplayTimeZone",
    "DurationOverflow",
    "OffsetDisambiguation",
    "RoundingMode",
    "Unit",
    "UnsignedRoundingMode",
    "Sign",
    "AnyCalendarKind",
];

pub fn enum_rows(name: &str) -> Vec<Row> {
    use temporal_rs::options as o;
    match name {
        "ErrorKind" => rows!(ferr::ErrorKind, ErrorKind, [Generic, Type, Range, Syntax, Assert]),
        "ArithmeticOverflow" => rows!(fopt::ArithmeticOverflow, o::ArithmeticOverflow, [Constrain, Reject]),
        "Disambiguation" => rows!(fopt::Disambiguation, o::Disambiguation, [Compatible, Earlier, Later, Reject]),
        "DisplayCalendar" => rows!(fopt::DisplayCalendar, o::DisplayCalendar, [Auto, Always, Never, Critical]),
        "DisplayOffset" => rows!(fopt::DisplayOffset, o::DisplayOffset, [Auto, Never]),
        "DisplayTimeZone" => rows!(fopt::DisplayTimeZone, o::DisplayTimeZone, [Auto, Never, Critical]),
        "DurationOverflow" => rows!(fopt::DurationOverflow, o::DurationOverflow, [Constrain, Balance]),
        "OffsetDisambiguation" => rows!(fopt::OffsetDisambiguation, o::OffsetDisambiguation, [Use, Prefer, Ignore, Reject]),
        "RoundingMode" => rows!(fopt::RoundingMode, o::RoundingMode, [Ceil, Floor, Expand, Trunc, HalfCeil, HalfFloor, HalfExpand, HalfTrunc, HalfEven]),
        "Unit" => rows!(fopt::Unit, o::Unit, [Auto, Nanosecond, Microsecond, Millisecond, Second, Minute, Hour, Day, Week, Month, Year]),
        "UnsignedRoundingMode" => rows!(fopt::UnsignedRoundingMode, o::UnsignedRoundingMode, [Infinity, Zero, HalfInfinity, HalfZero, HalfEven]),
        "Sign" => rows!(fdur::Sign, temporal_rs::Sign, [Positive, Zero, Negative]),
        "AnyCalendarKind" => rows!(
            fcal::AnyCalendarKind,
            IcuKind,
            [
                Buddhist,
                Chinese,
                Coptic,
                Dangi,
                Ethiopian,
                EthiopianAmeteAlem,
                Gregorian,
                Hebrew,
                Indian,
                IslamicCivil,
                IslamicObservational,
                IslamicTabular,
                IslamicUmmAlQura,
                Iso,
                Japanese,
                JapaneseExtended,
                Persian,
                Roc
            ]
        ),
        _ => vec![],
    }
}

/// (name, ffi kind, icu kind), by name
pub fn calendar_kinds() -> Vec<(&'static str, fcal::AnyCalendarKind, IcuKind)> {
    macro_rules! k {
        ($($v:ident),*) => { vec![$((stringify!($v), fcal::AnyCalendarKind::$v, IcuKind::$v)),*] };
    }
    k!(
        Buddhist,
        Chinese,
        Coptic,
        Dangi,
        Ethiopian,
        EthiopianAmeteAlem,
        Gregorian,
        Hebrew,
        Indian,
        IslamicCivil,
        IslamicObservational,
        IslamicTabular,
        IslamicUmmAlQura,
        Iso,
        Japanese,
        JapaneseExtended,
        Persian,
        Roc
    )
}
pub fn ffi_kind_name(k: fcal::AnyCalendarKind) -> &'static str {
    let d = k as i64;
    calendar_kinds().into_iter().find(|r| r.1 as i64 == d).map(|r| r.0).unwrap_or("?")
}

#[derive(Serialize, Deserialize, Debug, Clone)]
pub struct EnumCase {
    pub enum_name: String,
    pub idx: u32,
}
pub struct EnumSub;

/// an error value of the requested kind, produced by the core itself (Assert has no public constructor)
fn core_error_of(kind: ErrorKind) -> Option<temporal_rs::TemporalError> {
    use temporal_rs::TemporalError as E;
    match kind {
        ErrorKind::Generic => Some(E::general("x")),
        ErrorKind::Type => Some(E::r#type()),
        ErrorKind::Range => Some(E::range()),
        ErrorKind::Syntax => Some(E::syntax()),
        ErrorKind::Assert => {
            // any operation that reports an internal assertion as an error value
            let tries: Vec<Box<dyn Fn() -> Option<temporal_rs::TemporalError>>> = vec![
                Box::new(|| {
                    let dt = temporal_rs::PlainDateTime::try_new(275760, 9, 13, 0, 0, 0, 0, 0, 0, Calendar::default()).ok()?;
                    let d = crate::conv::duration_from_f64s(&[0., 0., 0., 0., 1., 0., 0., 0., 0., 0.]).ok()?;
                    dt.add(&d, None).err()
                }),
                Box::new(|| {
                    let dt = temporal_rs::PlainDateTime::try_new(-271821, 4, 20, 0, 0, 0, 0, 0, 0, Calendar::default()).ok()?;
                    let d = crate::conv::duration_from_f64s(&[0., 0., 0., -1., 0., 0., 0., 0., 0., 0.]).ok()?;
                    dt.add(&d, None).err()
                }),
            ];
            let mut tries = tries;
            for u in super::UNITS {
                tries.push(Box::new(move || temporal_rs::PlainTime::try_new(1, 2, 3, 4, 5, 6).ok()?.round(u, None, None).err()));
                tries.push(Box::new(move || {
                    let mut o = RoundingOptions::default();
                    o.smallest_unit = Some(u);
                    Instant::try_new(123_456_789).ok()?.round(o).err()
                }));
            }
            for t in tries {
                if let Ok(Some(e)) = guard(|| t()) {
                    if e.kind() == ErrorKind::Assert {
                        return Some(e);
                    }
                }
            }
            None
        }
    }
}

impl SubCheck for EnumSub {
    type Case = EnumCase;
    fn name(&self) -> &'static str {
        "enum"
    }
    fn eval(&self, c: &EnumCase) -> Outcome {
        let label = if c.enum_name == "TemporalError" { "conv:TemporalError" } else { static_name(&ENUMS, &c.enum_name) };
        let mut o = Outcome::pass().class(label).nontrivial(true);
        if c.enum_name == "TemporalError" {
            // From<temporal_rs::TemporalError> for ffi::TemporalError, one case per kind
            let kinds = [ErrorKind::Generic, ErrorKind::Type, ErrorKind::Range, ErrorKind::Syntax, ErrorKind::Assert];
            let k = kinds[(c.idx as usize) % 5];
            let Some(e) = core_error_of(k) else {
                o.unjudged = true;
                return o.class("TemporalError:no-value-of-this-kind-obtainable");
            };
            let f: ferr::TemporalError = e.into();
            let got = fk(&f);
            let want = kind_name(k).to_string();
            if got != want {
                o = o.fail("C19/enum/TemporalError/kind", want, got);
            }
            return o;
        }
        let rows = enum_rows(&c.enum_name);
        let Some(r) = rows.get(c.idx as usize) else {
            o.unjudged = true;
            o.nontrivial = false;
            return o;
        };
        if r.ffi_to_core != r.name {
            o = o.fail(format!("C19/enum/{}/ffi-to-core", label), format!("{}::{}", label, r.name), r.ffi_to_core.clone());
        }
        if r.core_name != r.name {
            o = o.fail(format!("C19/enum/{}/core-debug-name", label), r.name, r.core_name.clone());
        }
        if r.core_to_ffi != r.ffi_disc {
            o = o.fail(format!("C19/enum/{}/core-to-ffi", label), format!("{} (discriminant {})", r.name, r.ffi_disc), format!("discriminant {}", r.core_to_ffi));
        }
        o
    }
}

// ---------------------------------------------------------------------------------------------
// option records

#[derive(Serialize, Deserialize, Debug, Clone)]
pub struct OptionsCase {
    /// 0 Precision, 1 ToStringRoundingOptions, 2 DifferenceSettings, 3 RoundingOptions
    pub which: u8,
    pub lu: Option<u8>,
    pub su: Option<u8>,
    pub rm: Option<u8>,
    pub inc: Option<u32>,
    pub pmin: bool,
    pub pdig: Option<u8>,
}
pub struct OptionsSub;
pub const OPTION_RECORDS: [&str; 4] = ["conv:Precision", "conv:ToStringRoundingOptions", "conv:DifferenceSettings", "conv:RoundingOptions"];
const INCS: [Option<u32>; 8] = [None, Some(0), Some(1), Some(2), Some(7), Some(1_000_000_000), Some(1_000_000_001), Some(u32::MAX)];
const PDIGS: [Option<u8>; 13] = [None, Some(0), Some(1), Some(2), Some(3), Some(4), Some(5), Some(6), Some(7), Some(8), Some(9), Some(10), Some(255)];

fn opt_idx(i: u64, n: u64) -> Option<u8> {
    if i == 0 {
        None
    } else {
        Some(((i - 1) % n) as u8)
    }
}
pub fn options_case(i: u64) -> OptionsCase {
    // mixed radix: which(4) x lu(12) x su(12) x rm(10) x inc(8) ; precision rides on (lu, inc) for which<2
    let which = (i % 4) as u8;
    let mut r = i / 4;
    let lu = opt_idx(r % 12, 11);
    r /= 12;
    let su = opt_idx(r % 12, 11);
    r /= 12;
    let rm = opt_idx(r % 10, 9);
    r /= 10;
    let inc = INCS[(r % 8) as usize];
    let pd = PDIGS[((i / 4) % 13) as usize];
    OptionsCase { which, lu, su, rm, inc, pmin: (i / 4 / 13) % 2 == 1, pdig: pd }
}
pub const OPTIONS_TOTAL: u64 = 4 * 12 * 12 * 10 * 8;

impl SubCheck for OptionsSub {
    type Case = OptionsCase;
    fn name(&self) -> &'static str {
        "options"
    }
    fn eval(&self, c: &OptionsCase) -> Outcome {
        let label = OPTION_RECORDS[(c.which % 4) as usize];
        let mut o = Outcome::pass().class(label).nontrivial(true);
        let b = Bundle0 { lu: c.lu, su: c.su, rm: c.rm, inc: c.inc, pmin: c.pmin, pdig: c.pdig };
        let fprec = || fopt::Precision { is_minute: c.pmin, precision: dopt(c.pdig) };
        let want_prec = if c.pmin {
            Precision::Minute
        } else if let Some(d) = c.pdig {
            Precision::Digit(d)
        } else {
            Precision::Auto
        };
        match c.which % 4 {
            0 => {
                let got: Precision = fprec().into();
                if got != want_prec {
                    o = o.fail("C19/options/Precision/mismatch", format!("{want_prec:?}"), format!("{got:?}"));
                }
            }
            1 => {
                let f = fopt::ToStringRoundingOptions { precision: fprec(), smallest_unit: dopt(c.su.map(super::capi::f_unit)), rounding_mode: dopt(c.rm.map(super::capi::f_mode)) };
                let got: temporal_rs::options::ToStringRoundingOptions = f.into();
                let want = format!("precision={:?} smallest_unit={:?} rounding_mode={:?}", want_prec, unit_of(c.su), mode_of(c.rm));
                let got = format!("precision={:?} smallest_unit={:?} rounding_mode={:?}", got.precision, got.smallest_unit, got.rounding_mode);
                if got != want {
                    o = o.fail("C19/options/ToStringRoundingOptions/mismatch", want, got);
                }
            }
            w => {
                let want: R = match c.inc.map(RoundingIncrement::try_new).transpose() {
                    Ok(inc) => Ok(format!("largest_unit={:?} smallest_unit={:?} rounding_mode={:?} increment={:?}", unit_of(c.lu), unit_of(c.su), mode_of(c.rm), inc)),
                    Err(e) => Err(ek(&e)),
                };
                let got: R = if w == 2 {
                    let f = fopt::DifferenceSettings {
                        largest_unit: dopt(b.lu.map(super::capi::f_unit)),
                        smallest_unit: dopt(b.su.map(super::capi::f_unit)),
                        rounding_mode: dopt(b.rm.map(super::capi::f_mode)),
                        increment: dopt(b.inc),
                    };
                    DifferenceSettings::try_from(f)
                        .map(|s| format!("largest_unit={:?} smallest_unit={:?} rounding_mode={:?} increment={:?}", s.largest_unit, s.smallest_unit, s.rounding_mode, s.increment))
                        .map_err(|e| fk(&e))
                } else {
                    let f = fopt::RoundingOptions {
                        largest_unit: dopt(b.lu.map(super::capi::f_unit)),
                        smallest_unit: dopt(b.su.map(super::capi::f_unit)),
                        rounding_mode: dopt(b.rm.map(super::capi::f_mode)),
                        increment: dopt(b.inc),
                    };
                    RoundingOptions::try_from(f)
                        .map(|s| format!("largest_unit={:?} smallest_unit={:?} rounding_mode={:?} increment={:?}", s.largest_unit, s.smallest_unit, s.rounding_mode, s.increment))
                        .map_err(|e| fk(&e))
                };
                if got != want {
                    o = o.fail(format!("C19/options/{}/mismatch", &label[5..]), format!("{want:?}"), format!("{got:?}"));
                }
            }
        }
        let _ = (b.pmin, b.pdig);
        o
    }
}
struct Bundle0 {
    lu: Option<u8>,
    su: Option<u8>,
    rm: Option<u8>,
    inc: Option<u32>,
    pmin: bool,
    pdig: Option<u8>,
}

// ---------------------------------------------------------------------------------------------
// partial records / ISO records

#[derive(Serialize, Deserialize, Debug, Clone)]
pub struct PartialCase {
    /// 0 PartialDate, 1 PartialTime, 2 PartialDateTime, 3 PartialDuration, 4 IsoDate, 5 IsoTime, 6 IsoDateTime
    pub kind: u8,
    /// subset masks (bit i = field i present)
    pub mask: u16,
    pub mask2: u16,
    /// value set
    pub variant: u8,
}
pub struct PartialSub;
pub const RECORDS: [&str; 7] =
    ["conv:PartialDate", "conv:PartialTime", "conv:PartialDateTime", "conv:PartialDuration", "conv:IsoDate", "conv:IsoTime", "conv:IsoDateTime"];

/// all-different values so that two swapped fields cannot coincide
const DATE_VALUES: [(i32, u8, &str, u8, &str, i32); 3] = [(2021, 7, "M07", 19, "ce", 1987), (-44, 3, "M11", 25, "bce", 45), (275760, 12, "M05L", 31, "reiwa", 6)];
const TIME_VALUES: [[u16; 6]; 3] = [[1, 2, 3, 4, 5, 6], [23, 59, 58, 999, 998, 997], [0, 30, 15, 123, 456, 789]];

fn ffi_partial_date<'a>(mask: u16, v: &'a (i32, u8, &'a str, u8, &'a str, i32), cal: &'a fcal::Calendar) -> fdate::PartialDate<'a> {
    fdate::PartialDate {
        year: dopt((mask & 1 != 0).then_some(v.0)),
        month: dopt((mask & 2 != 0).then_some(v.1)),
        month_code: if mask & 4 != 0 { v.2.as_bytes().into() } else { b"".as_slice().into() },
        day: dopt((mask & 8 != 0).then_some(v.3)),
        era: if mask & 16 != 0 { v.4.as_bytes().into() } else { b"".as_slice().into() },
        era_year: dopt((mask & 32 != 0).then_some(v.5)),
        calendar: cal,
    }
}
fn core_partial_date(mask: u16, v: &(i32, u8, &str, u8, &str, i32), cal: &Calendar) -> PartialDate {
    PartialDate {
        year: (mask & 1 != 0).then_some(v.0),
        month: (mask & 2 != 0).then_some(v.1),
        month_code: (mask & 4 != 0).then(|| MonthCode::try_from_utf8(v.2.as_bytes()).expect("table month code")),
        day: (mask & 8 != 0).then_some(v.3),
        era: (mask & 16 != 0).then(|| TinyAsciiStr::<19>::try_from_utf8(v.4.as_bytes()).expect("table era")),
        era_year: (mask & 32 != 0).then_some(v.5),
        calendar: cal.clone(),
    }
}
fn ffi_partial_time(mask: u16, v: &[u16; 6]) -> ftime::PartialTime {
    ftime::PartialTime {
        hour: dopt((mask & 1 != 0).then_some(v[0] as u8)),
        minute: dopt((mask & 2 != 0).then_some(v[1] as u8)),
        second: dopt((mask & 4 != 0).then_some(v[2] as u8)),
        millisecond: dopt((mask & 8 != 0).then_some(v[3])),
        microsecond: dopt((mask & 16 != 0).then_some(v[4])),
        nanosecond: dopt((mask & 32 != 0).then_some(v[5])),
    }
}
fn core_partial_time(mask: u16, v: &[u16; 6]) -> PartialTime {
    PartialTime {
        hour: (mask & 1 != 0).then_some(v[0] as u8),
        minute: (mask & 2 != 0).then_some(v[1] as u8),
        second: (mask & 4 != 0).then_some(v[2] as u8),
        millisecond: (mask & 8 != 0).then_some(v[3]),
        microsecond: (mask & 16 != 0).then_some(v[4]),
        nanosecond: (mask & 32 != 0).then_some(v[5]),
    }
}

/// partial duration on both sides (field i present iff bit i of mask)
pub fn partial_duration_pair(v: &[f64; 10], mask: u16) -> (fdur::PartialDuration, TemporalResult<PartialDuration>) {
    let g = |i: usize| (mask & (1 << i) != 0).then_some(v[i]);
    let f = fdur::PartialDuration {
        years: dopt(g(0)),
        months: dopt(g(1)),
        weeks: dopt(g(2)),
        days: dopt(g(3)),
        hours: dopt(g(4)),
        minutes: dopt(g(5)),
        seconds: dopt(g(6)),
        milliseconds: dopt(g(7)),
        microseconds: dopt(g(8)),
        nanoseconds: dopt(g(9)),
    };
    let c = (|| -> TemporalResult<PartialDuration> {
        let h = |i: usize| -> TemporalResult<Option<FiniteF64>> { g(i).map(FiniteF64::try_from).transpose() };
        Ok(PartialDuration {
            years: h(0)?,
            months: h(1)?,
            weeks: h(2)?,
            days: h(3)?,
            hours: h(4)?,
            minutes: h(5)?,
            seconds: h(6)?,
            milliseconds: h(7)?,
            microseconds: h(8)?,
            nanoseconds: h(9)?,
        })
    })();
    (f, c)
}

impl SubCheck for PartialSub {
    type Case = PartialCase;
    fn name(&self) -> &'static str {
        "partial"
    }
    fn eval(&self, c: &PartialCase) -> Outcome {
        let label = RECORDS[(c.kind % 7) as usize];
        let mut o = Outcome::pass().class(label).nontrivial(true);
        let cal_id = ["iso8601", "gregory", "japanese"][(c.variant % 3) as usize];
        let ccal = Calendar::from_utf8(cal_id.as_bytes()).expect("calendar");
        let fcal_ = fcal::Calendar(ccal.clone());
        let dv = &DATE_VALUES[(c.variant % 3) as usize];
        let tv = &TIME_VALUES[(c.variant % 3) as usize];
        let (got, want): (R, R) = match c.kind % 7 {
            0 => (
                PartialDate::try_from(ffi_partial_date(c.mask, dv, &fcal_)).map(|p| format!("{p:?}")).map_err(|e| fk(&e)),
                Ok(format!("{:?}", core_partial_date(c.mask, dv, &ccal))),
            ),
            1 => (Ok(format!("{:?}", PartialTime::from(ffi_partial_time(c.mask, tv)))), Ok(format!("{:?}", core_partial_time(c.mask, tv)))),
            2 => (
                PartialDateTime::try_from(fdt::PartialDateTime { date: ffi_partial_date(c.mask, dv, &fcal_), time: ffi_partial_time(c.mask2, tv) })
                    .map(|p| format!("{p:?}"))
                    .map_err(|e| fk(&e)),
                Ok(format!("{:?}", PartialDateTime { date: core_partial_date(c.mask, dv, &ccal), time: core_partial_time(c.mask2, tv) })),
            ),
            3 => {
                let mut v = [1.0, 2.0, 3.0, 4.0, 5.0, 6.0, 7.0, 8.0, 9.0, 10.0];
                match c.variant % 4 {
                    1 => v = v.map(|x| -x * 1000.0),
                    2 => v[(c.mask2 % 10) as usize] = f64::NAN,
                    3 => v[(c.mask2 % 10) as usize] = f64::INFINITY,
                    _ => {}
                }
                let (f, cc) = partial_duration_pair(&v, c.mask);
                (PartialDuration::try_from(f).map(|p| format!("{p:?}")).map_err(|e| fk(&e)), cc.map(|p| format!("{p:?}")).map_err(|e| ek(&e)))
            }
            k => {
                // ISO records: plain field copies; values derived from the masks (any value is admissible)
                let (y, m, d) = (c.mask as i32 * 37 - 300_000, (c.mask % 251) as u8, (c.mask2 % 241) as u8);
                let t = [(c.mask2 % 239) as u8, (c.mask % 233) as u8, (c.mask2 % 229) as u8];
                let s = [c.mask.wrapping_mul(31), c.mask2.wrapping_mul(17), c.mask ^ 0x5a5a];
                let fd = || fiso::IsoDate { year: y, month: m, day: d };
                let ft = || fiso::IsoTime { hour: t[0], minute: t[1], second: t[2], millisecond: s[0], microsecond: s[1], nanosecond: s[2] };
                let wd = format!("IsoDate {{ year: {y}, month: {m}, day: {d} }}");
                let wt = format!("IsoTime {{ hour: {}, minute: {}, second: {}, millisecond: {}, microsecond: {}, nanosecond: {} }}", t[0], t[1], t[2], s[0], s[1], s[2]);
                match k {
                    4 => (Ok(format!("{:?}", temporal_rs::iso::IsoDate::from(fd()))), Ok(wd)),
                    5 => (Ok(format!("{:?}", temporal_rs::iso::IsoTime::from(ft()))), Ok(wt)),
                    _ => (
                        Ok(format!("{:?}", temporal_rs::iso::IsoDateTime::from(fiso::IsoDateTime { date: fd(), time: ft() }))),
                        Ok(format!("IsoDateTime {{ date: {wd}, time: {wt} }}")),
                    ),
                }
            }
        };
        if got != want {
            o = o.fail(format!("C19/partial/{}/mismatch", &label[5..]), format!("{want:?}"), format!("{got:?}"));
        }
        o
    }
}

// ---------------------------------------------------------------------------------------------
// I128Nanoseconds

/// the documented split (two's complement, bit by bit): value = high * 2^64 + low
pub fn encode_i128(x: i128) -> Option<finst::I128Nanoseconds> {
    Some(finst::I128Nanoseconds { high: (x >> 64) as i64, low: x as u64 })
}
pub fn decode_i128(v: &finst::I128Nanoseconds) -> i128 {
    ((v.high as i128) << 64) | (v.low as i128)
}

pub fn instant_try_new(x: i128) -> Out {
    let enc = encode_i128(x).expect("every i128 has an encoding");
    let core = show_res(Instant::try_new(x));
    let ffi: R = match guard(|| fr(finst::Instant::try_new(finst::I128Nanoseconds { high: enc.high, low: enc.low }))) {
        Ok(r) => r,
        Err(p) => Err(format!("PANIC {p}")),
    };
    Out::Both(ffi, core)
}

pub fn instant_epoch_nanoseconds(x: i128) -> Out {
    let Ok(ci) = Instant::try_new(x) else {
        return Out::NoInput("instant-out-of-range");
    };
    let got = decode_i128(&finst::Instant(ci).epoch_nanoseconds());
    Out::Both(Ok(got.to_string()), Ok(x.to_string()))
}

#[derive(Serialize, Deserialize, Debug, Clone)]
pub struct I128Case {
    pub x: i128,
    /// 0 = try_new(encode(x)) vs core try_new(x); 1 = decode(epoch_nanoseconds(Instant(x))) == x;
    /// 2 = round trip through the FFI only: decode(try_new(encode(x)).epoch_nanoseconds()) == x
    pub dir: u8,
}
pub struct I128Sub;
pub const SIG_SHIFT: &str = "C19/capi/Instant::try_new/shifts-high-by-64-plus-low";
pub const SIG_SIGN: &str = "C19/capi/Instant::epoch_nanoseconds/sign-lost-when-high-word-is-zero";

pub fn out_to_outcome(mut o: Outcome, label: &str, sub: &str, out: Out) -> Outcome {
    match out {
        Out::NoInput(why) => {
            o = o.class(why);
            o.nontrivial = false;
            o.unjudged = true;
        }
        Out::Unjudged(why) => {
            o = o.class(why);
            o.unjudged = true;
        }
        Out::Receiver(what, f, c) => {
            let sig = match what.as_str() {
                "__i128-shift" => SIG_SHIFT.to_string(),
                "__i128-sign" => SIG_SIGN.to_string(),
                _ => format!("C19/{sub}/{label}/receiver-{what}-mismatch"),
            };
            o = o.fail(sig, format!("{c:?}"), format!("{f:?}"));
        }
        Out::CorePanic(p) => {
            o = o.class("core-panicked").class(panic_label(&p));
            o.unjudged = true;
        }
        Out::Both(f, c) => {
            o = o.class(if c.is_ok() { "core:Ok" } else { "core:Err" });
            if c.is_ok() {
                o = o.class(intern(format!("{label} [core Ok]")));
            }
            if f != c {
                o = o.fail(format!("C19/{sub}/{label}/mismatch"), format!("{c:?}"), format!("{f:?}"));
            }
        }
    }
    o
}

impl SubCheck for I128Sub {
    type Case = I128Case;
    fn name(&self) -> &'static str {
        "i128"
    }
    fn eval(&self, c: &I128Case) -> Outcome {
        let x = c.x;
        let mut o = Outcome::pass().nontrivial(true);
        o = o.class(if x < 0 { "i128:negative" } else { "i128:non-negative" });
        if (x.unsigned_abs() as u64) >> 63 == 1 {
            o = o.class("i128:low-word-top-bit-set");
        }
        if x.unsigned_abs() >> 64 == 0 {
            o = o.class("i128:high-word-zero");
        }
        if x.abs() > MAX_INSTANT {
            o = o.class("i128:out-of-range");
        }
        match c.dir % 3 {
            0 => out_to_outcome(o.class("Instant::try_new"), "Instant::try_new", "i128", instant_try_new(x)),
            1 => out_to_outcome(o.class("Instant::epoch_nanoseconds"), "Instant::epoch_nanoseconds", "i128", instant_epoch_nanoseconds(x)),
            _ => {
                o = o.class("round-trip");
                // leg 1 must agree with the core; then leg 2 on the FFI's own value
                let leg1 = instant_try_new(x);
                let ok1 = matches!(&leg1, Out::Both(f, c) if f == c && f.is_ok());
                if !ok1 {
                    return out_to_outcome(o, "Instant::try_new", "i128", leg1);
                }
                let enc = encode_i128(x).unwrap();
                match finst::Instant::try_new(enc) {
                    Ok(i) => {
                        let back = decode_i128(&i.epoch_nanoseconds());
                        if back != x {
                            o = o.fail("C19/i128/round-trip/mismatch", x.to_string(), back.to_string());
                        }
                        o
                    }
                    Err(e) => o.fail("C19/i128/round-trip/second-call-differs", "Ok", fk(&e)),
                }
            }
        }
    }
}

pub fn i128_boundaries() -> Vec<i128> {
    let mut v: Vec<i128> = vec![];
    let p63 = 1i128 << 63;
    let p64 = 1i128 << 64;
    for base in [0, p63, p64, 2 * p64, 3 * p64, 100 * p64, 468 * p64, MAX_INSTANT, p64 + p63, 467 * p64 + p63, 1_000_000_000, 1i128 << 32, 1i128 << 53] {
        for e in -2i128..=2 {
            v.push(base + e);
            v.push(-(base + e));
        }
    }
    // far outside the instant range (any high/low pair is a possible FFI argument)
    for x in [1i128 << 100, (1i128 << 126) + 5, i128::MAX, i128::MAX - (1i128 << 64), 1i128 << 73] {
        v.push(x);
        v.push(-x);
    }
    // small low words (the shift defect gives a different wrong answer for low < 64)
    for low in [1i128, 2, 5, 31, 62, 63, 64, 65, 127, 128] {
        for h in [0i128, 1, 2, 468] {
            v.push(h * p64 + low);
            v.push(-(h * p64 + low));
        }
    }
    v
}

pub fn run(ctx: &mut Ctx) {
    // enums: exhaustive
    let mut enum_cases: Vec<EnumCase> = vec![];
    for e in ENUMS {
        for i in 0..enum_rows(e).len() {
            enum_cases.push(EnumCase { enum_name: e.to_string(), idx: i as u32 });
        }
    }
    for i in 0..5 {
        enum_cases.push(EnumCase { enum_name: "TemporalError".into(), idx: i });
    }
    ctx.run_enum(&EnumSub, enum_cases.len() as u64, &|i| enum_cases[i as usize].clone(), true);

    // option records: complete product
    ctx.run_enum(&OptionsSub, OPTIONS_TOTAL * 2, &|i| options_case(i), true);

    // partial records: all subsets
    let mut pc: Vec<PartialCase> = vec![];
    for variant in 0..3u8 {
        for mask in 0..64u16 {
            pc.push(PartialCase { kind: 0, mask, mask2: 0, variant });
            pc.push(PartialCase { kind: 1, mask, mask2: 0, variant });
            for mask2 in 0..64u16 {
                pc.push(PartialCase { kind: 2, mask, mask2, variant });
            }
        }
    }
    for variant in 0..4u8 {
        for mask in 0..1024u16 {
            pc.push(PartialCase { kind: 3, mask, mask2: mask % 10, variant });
        }
    }
    for kind in 4..7u8 {
        for i in 0..500u16 {
            pc.push(PartialCase { kind, mask: i.wrapping_mul(131).wrapping_add(7), mask2: i.wrapping_mul(977).wrapping_add(3), variant: 0 });
        }
    }
    ctx.run_enum(&PartialSub, pc.len() as u64, &|i| pc[i as usize].clone(), true);

    // I128: boundary list x 3 directions, then generated
    let bl = i128_boundaries();
    ctx.run_enum(&I128Sub, bl.len() as u64 * 3, &|i| I128Case { x: bl[(i / 3) as usize], dir: (i % 3) as u8 }, false);
    use proptest::prelude::*;
    let n = ctx.tier.pick(30_000, 1_000_000);
    ctx.run_prop(&I128Sub, &|| (super::gen19::instant_strategy(), 0u8..3).prop_map(|(x, dir)| I128Case { x, dir }), n);
}
