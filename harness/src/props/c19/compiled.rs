//! Part A: compiled-data wrappers (process-wide `TZ_PROVIDER`) vs the `*_with_provider` core methods with
//! a fresh `FsTzdbProvider`.

use super::gen19::{all_distinct, zone_std_offset_minutes, Bundle};
use super::*;
use crate::conv::*;
use crate::refm::civil::{to_days, NS_PER_DAY};
use crate::run::{guard, Outcome, SubCheck};
use std::str::FromStr;
use std::sync::atomic::{AtomicBool, Ordering};
use temporal_rs::options::{RelativeTo, ToStringRoundingOptions};
use temporal_rs::provider::TransitionDirection;
use temporal_rs::tzdb::FsTzdbProvider;
use temporal_rs::{Calendar, Instant, Now, PlainDateTime, PlainTime, TimeZone, ZonedDateTime};

/// every compiled-data wrapper exercised by this module ("Type::method")
pub const NAMES: [&str; 44] = [
    "ZonedDateTime::year",
    "ZonedDateTime::month",
    "ZonedDateTime::month_code",
    "ZonedDateTime::day",
    "ZonedDateTime::hour",
    "ZonedDateTime::minute",
    "ZonedDateTime::second",
    "ZonedDateTime::millisecond",
    "ZonedDateTime::microsecond",
    "ZonedDateTime::nanosecond",
    "ZonedDateTime::offset",
    "ZonedDateTime::offset_nanoseconds",
    "ZonedDateTime::era",
    "ZonedDateTime::era_year",
    "ZonedDateTime::day_of_week",
    "ZonedDateTime::day_of_year",
    "ZonedDateTime::week_of_year",
    "ZonedDateTime::year_of_week",
    "ZonedDateTime::days_in_week",
    "ZonedDateTime::days_in_month",
    "ZonedDateTime::days_in_year",
    "ZonedDateTime::months_in_year",
    "ZonedDateTime::in_leap_year",
    "ZonedDateTime::get_time_zone_transition",
    "ZonedDateTime::hours_in_day",
    "ZonedDateTime::with_plain_time",
    "ZonedDateTime::add",
    "ZonedDateTime::subtract",
    "ZonedDateTime::since",
    "ZonedDateTime::until",
    "ZonedDateTime::start_of_day",
    "ZonedDateTime::to_plain_date",
    "ZonedDateTime::to_plain_time",
    "ZonedDateTime::to_plain_datetime",
    "ZonedDateTime::to_ixdtf_string",
    "ZonedDateTime::from_str",
    "ZonedDateTime::fmt",
    "Duration::round",
    "Duration::compare",
    "Duration::total",
    "Instant::to_ixdtf_string",
    "PlainDateTime::to_zoned_date_time",
    "RelativeTo::try_from_str",
    "Now::*",
];

/// wall-clock reading -> epoch ns using the zone's *standard* offset (placement only)
fn place(a: &[i32; 9], zone: &str) -> i128 {
    let day = to_days(a[0] as i64, a[1] as u8, a[2] as u8) as i128;
    let tod = ((a[3] as i128 * 60 + a[4] as i128) * 60 + a[5] as i128) * 1_000_000_000 + a[6] as i128 * 1_000_000 + a[7] as i128 * 1_000 + a[8] as i128;
    day * NS_PER_DAY + tod - zone_std_offset_minutes(zone) as i128 * 60_000_000_000
}

fn tz(id: &str) -> Option<TimeZone> {
    TimeZone::try_from_identifier_str(id).ok()
}

fn zdt(a: &[i32; 9], zone: &str, cal: &str) -> Option<ZonedDateTime> {
    let c = Calendar::from_str(cal).ok()?;
    ZonedDateTime::try_new(place(a, zone), c, tz(zone)?).ok()
}

fn to_string_opts(b: &Bundle) -> ToStringRoundingOptions {
    ToStringRoundingOptions { precision: precision_of(b), smallest_unit: unit_of(b.su), rounding_mode: mode_of(b.rm) }
}

fn relative_to(b: &Bundle, p: &FsTzdbProvider) -> Option<Option<RelativeTo>> {
    // k selects: none / plain date / zoned date-time
    match b.k % 4 {
        0 => Some(None),
        1 | 2 => {
            let z = zdt(&b.b, &b.zone2, &b.cal2)?;
            Some(Some(RelativeTo::ZonedDateTime(z)))
        }
        _ => {
            let z = zdt(&b.b, "UTC", &b.cal2)?;
            let d = guard(|| z.to_plain_date_with_provider(p)).ok()?.ok()?;
            Some(Some(RelativeTo::PlainDate(d)))
        }
    }
}

pub enum Pair {
    /// (core, wrapper)
    Both(R, R),
    /// the core method itself panicked: the wrapper is not called (it would panic while holding the
    /// process-wide lock); counted, not judged here (C03's subject)
    CorePanic(String),
    /// receiver / argument could not be built for this bundle
    NoInput(&'static str),
}

/// set when a wrapper panicked although the core did not: the wrapper held the process-wide provider
/// lock, which is now poisoned, so every later wrapper call in this process fails with "Unable to
/// acquire lock". The panic itself is reported as the failure; later cases are not judged.
static POISONED: AtomicBool = AtomicBool::new(false);

/// is the process-wide provider lock poisoned? (probe: a trivial wrapper call that cannot fail otherwise)
fn lock_poisoned() -> bool {
    if POISONED.load(Ordering::SeqCst) {
        return true;
    }
    let probe = ZonedDateTime::try_new(0, Calendar::default(), TimeZone::try_from_identifier_str("+00:00").expect("offset zone")).expect("epoch");
    let bad = matches!(guard(|| probe.hour()), Ok(Err(e)) if e.kind() == temporal_rs::error::ErrorKind::Generic);
    if bad {
        POISONED.store(true, Ordering::SeqCst);
    }
    bad
}

macro_rules! ab {
    ($core:expr, $wrap:expr) => {{
        match guard(|| show_res($core)) {
            Err(p) => Pair::CorePanic(p),
            Ok(c) => match guard(|| show_res($wrap)) {
                Ok(w) => Pair::Both(c, w),
                Err(p) => {
                    POISONED.store(true, Ordering::SeqCst);
                    Pair::Both(c, Err(format!("PANIC {p}")))
                }
            },
        }
    }};
}

fn run_one(b: &Bundle, p: &FsTzdbProvider) -> Pair {
    let f = b.f.as_str();
    let Some(z) = zdt(&b.a, &b.zone, &b.cal) else {
        return Pair::NoInput("receiver-out-of-range");
    };
    match f {
        "ZonedDateTime::year" => ab!(z.year_with_provider(p), z.year()),
        "ZonedDateTime::month" => ab!(z.month_with_provider(p), z.month()),
        "ZonedDateTime::month_code" => ab!(z.month_code_with_provider(p), z.month_code()),
        "ZonedDateTime::day" => ab!(z.day_with_provider(p), z.day()),
        "ZonedDateTime::hour" => ab!(z.hour_with_provider(p), z.hour()),
        "ZonedDateTime::minute" => ab!(z.minute_with_provider(p), z.minute()),
        "ZonedDateTime::second" => ab!(z.second_with_provider(p), z.second()),
        "ZonedDateTime::millisecond" => ab!(z.millisecond_with_provider(p), z.millisecond()),
        "ZonedDateTime::microsecond" => ab!(z.microsecond_with_provider(p), z.microsecond()),
        "ZonedDateTime::nanosecond" => ab!(z.nanosecond_with_provider(p), z.nanosecond()),
        "ZonedDateTime::offset" => ab!(z.offset_with_provider(p), z.offset()),
        "ZonedDateTime::offset_nanoseconds" => ab!(z.offset_nanoseconds_with_provider(p), z.offset_nanoseconds()),
        "ZonedDateTime::era" => ab!(z.era_with_provider(p), z.era()),
        "ZonedDateTime::era_year" => ab!(z.era_year_with_provider(p), z.era_year()),
        "ZonedDateTime::day_of_week" => ab!(z.day_of_week_with_provider(p), z.day_of_week()),
        "ZonedDateTime::day_of_year" => ab!(z.day_of_year_with_provider(p), z.day_of_year()),
        "ZonedDateTime::week_of_year" => ab!(z.week_of_year_with_provider(p), z.week_of_year()),
        "ZonedDateTime::year_of_week" => ab!(z.year_of_week_with_provider(p), z.year_of_week()),
        "ZonedDateTime::days_in_week" => ab!(z.days_in_week_with_provider(p), z.days_in_week()),
        "ZonedDateTime::days_in_month" => ab!(z.days_in_month_with_provider(p), z.days_in_month()),
        "ZonedDateTime::days_in_year" => ab!(z.days_in_year_with_provider(p), z.days_in_year()),
        "ZonedDateTime::months_in_year" => ab!(z.months_in_year_with_provider(p), z.months_in_year()),
        "ZonedDateTime::in_leap_year" => ab!(z.in_leap_year_with_provider(p), z.in_leap_year()),
        "ZonedDateTime::get_time_zone_transition" => {
            let dir = if b.opt { TransitionDirection::Next } else { TransitionDirection::Previous };
            ab!(z.get_time_zone_transition_with_provider(dir, p), z.get_time_zone_transition(dir))
        }
        "ZonedDateTime::hours_in_day" => ab!(z.hours_in_day_with_provider(p), z.hours_in_day()),
        "ZonedDateTime::with_plain_time" => {
            // one case in three: the argument is the receiver's own wall-clock time (where a "nothing changes"
            // shortcut would apply; in a repeated hour the result is still re-resolved)
            let own = if b.k % 3 == 0 { guard(|| z.to_plain_time_with_provider(p)).ok().and_then(|r| r.ok()) } else { None };
            let t = match own {
                Some(t) => t,
                None => match PlainTime::try_new(b.b[3] as u8, b.b[4] as u8, b.b[5] as u8, b.b[6] as u16, b.b[7] as u16, b.b[8] as u16) {
                    Ok(t) => t,
                    Err(_) => return Pair::NoInput("time"),
                },
            };
            ab!(z.with_plain_time_and_provider(t, p), z.with_plain_time(t))
        }
        "ZonedDateTime::add" | "ZonedDateTime::subtract" => {
            let Ok(d) = duration_from_f64s(&b.dur.map(|x| x as f64)) else {
                return Pair::NoInput("invalid-duration");
            };
            let o = overflow_of(b.ovf);
            if f.ends_with("add") {
                ab!(z.add_with_provider(&d, o, p), z.add(&d, o))
            } else {
                ab!(z.subtract_with_provider(&d, o, p), z.subtract(&d, o))
            }
        }
        "ZonedDateTime::since" | "ZonedDateTime::until" => {
            // one case in four: the argument is the receiver itself and the options are taken as generated (valid or
            // not): a "nothing to measure" shortcut in the wrapper must still validate the options
            let identical = b.k % 4 == 0;
            let (other, s) = if identical {
                (z.clone(), diff_settings_of(b))
            } else {
                let Some(other) = zdt(&b.b, &b.zone2, &b.cal2) else {
                    return Pair::NoInput("other-out-of-range");
                };
                (other, diff_settings_of(&super::gen19::project_units(b, 1, 10, false)))
            };
            if f.ends_with("since") {
                ab!(z.since_with_provider(&other, s, p), z.since(&other, s))
            } else {
                ab!(z.until_with_provider(&other, s, p), z.until(&other, s))
            }
        }
        "ZonedDateTime::start_of_day" => ab!(z.start_of_day_with_provider(p), z.start_of_day()),
        "ZonedDateTime::to_plain_date" => ab!(z.to_plain_date_with_provider(p), z.to_plain_date()),
        "ZonedDateTime::to_plain_time" => ab!(z.to_plain_time_with_provider(p), z.to_plain_time()),
        "ZonedDateTime::to_plain_datetime" => ab!(z.to_plain_datetime_with_provider(p), z.to_plain_datetime()),
        "ZonedDateTime::to_ixdtf_string" => {
            let (o, t, c) = (display_offset_of(b.doff), display_tz_of(b.dtz), display_cal_of(b.dc));
            ab!(z.to_ixdtf_string_with_provider(o, t, c, to_string_opts(b), p), z.to_ixdtf_string(o, t, c, to_string_opts(b)))
        }
        "ZonedDateTime::fmt" => {
            // Display panics on an error (documented `expect`): only call it when the core succeeds
            match guard(|| z.to_string_with_provider(p)) {
                Err(pn) => Pair::CorePanic(pn),
                Ok(Err(_)) => Pair::NoInput("display-would-panic"),
                Ok(Ok(s)) => match guard(|| z.to_string()) {
                    Ok(w) => Pair::Both(Ok(s), Ok(w)),
                    Err(pn) => Pair::Both(Ok(s), Err(format!("PANIC {pn}"))),
                },
            }
        }
        "ZonedDateTime::from_str" => {
            let (d, o) = (disambiguation_of(b.disamb), offset_disambiguation_of(b.offd));
            ab!(ZonedDateTime::from_str_with_provider(&b.s, d, o, p), ZonedDateTime::from_str(&b.s, d, o))
        }
        "Duration::round" | "Duration::compare" | "Duration::total" => {
            let Ok(d) = duration_from_f64s(&b.dur.map(|x| x as f64)) else {
                return Pair::NoInput("invalid-duration");
            };
            let Some(rel) = relative_to(b, p) else {
                return Pair::NoInput("relative-to");
            };
            match f {
                "Duration::round" => {
                    let o = rounding_options_of(&super::gen19::project_units(b, 1, 10, true));
                    ab!(d.round_with_provider(o, rel.clone(), p), d.round(o, rel.clone()))
                }
                "Duration::compare" => {
                    let Ok(d2) = duration_from_f64s(&b.dur2.map(|x| x as f64)) else {
                        return Pair::NoInput("invalid-duration");
                    };
                    ab!(d.compare_with_provider(&d2, rel.clone(), p), d.compare(&d2, rel.clone()))
                }
                _ => {
                    let u = unit_of(super::gen19::project_units(b, 1, 10, true).su.or(Some(b.k % 11))).unwrap();
                    ab!(d.total_with_provider(u, rel.clone(), p), d.total(u, rel.clone()))
                }
            }
        }
        "Instant::to_ixdtf_string" => {
            let Ok(i) = Instant::try_new(place(&b.a, &b.zone)) else {
                return Pair::NoInput("receiver-out-of-range");
            };
            let t = if b.opt { tz(&b.zone) } else { None };
            ab!(i.to_ixdtf_string_with_provider(t.as_ref(), to_string_opts(b), p), i.to_ixdtf_string(t.as_ref(), to_string_opts(b)))
        }
        "PlainDateTime::to_zoned_date_time" => {
            let a = &b.a;
            let Ok(c) = Calendar::from_str(&b.cal) else {
                return Pair::NoInput("calendar");
            };
            let Ok(dt) = PlainDateTime::try_new(a[0], a[1] as u8, a[2] as u8, a[3] as u8, a[4] as u8, a[5] as u8, a[6] as u16, a[7] as u16, a[8] as u16, c) else {
                return Pair::NoInput("receiver-out-of-range");
            };
            let Some(t) = tz(&b.zone) else {
                return Pair::NoInput("zone");
            };
            let d = disambiguation_of(b.disamb);
            ab!(dt.to_zoned_date_time_with_provider(&t, d, p), dt.to_zoned_date_time(&t, d))
        }
        "RelativeTo::try_from_str" => ab!(RelativeTo::try_from_str_with_provider(&b.s, p), RelativeTo::try_from_str(&b.s)),
        _ => Pair::NoInput("unknown-function"),
    }
}

pub struct CompiledSub;

impl SubCheck for CompiledSub {
    type Case = Bundle;
    fn name(&self) -> &'static str {
        "compiled"
    }
    fn eval(&self, b: &Bundle) -> Outcome {
        set_cur(&b.f);
        let label = static_name(&NAMES, &b.f);
        let mut o = Outcome::pass().class(label).nontrivial(true);
        if POISONED.load(Ordering::SeqCst) {
            o.unjudged = true;
            return o.class("provider-lock-poisoned-by-an-earlier-wrapper-panic");
        }
        // a fresh provider per case (cold cache), as the property states
        let p = FsTzdbProvider::default();
        // receiver class: are the nine wall-clock fields, as the core reports them, pairwise distinct?
        if b.f.starts_with("ZonedDateTime::") {
            if let Some(z) = zdt(&b.a, &b.zone, &b.cal) {
                if let Ok(Ok(dt)) = guard(|| z.to_plain_datetime_with_provider(&p)) {
                    let v = [
                        dt.iso_year(),
                        dt.iso_month() as i32,
                        dt.iso_day() as i32,
                        dt.hour() as i32,
                        dt.minute() as i32,
                        dt.second() as i32,
                        dt.millisecond() as i32,
                        dt.microsecond() as i32,
                        dt.nanosecond() as i32,
                    ];
                    o = o.class(if all_distinct(&v) { "receiver:all-fields-distinct" } else { "receiver:some-fields-coincide" });
                    o = o.class(if b.zone.starts_with(['+', '-']) {
                        "zone:fixed-offset"
                    } else if b.zone == "UTC" {
                        "zone:UTC"
                    } else {
                        "zone:named"
                    });
                    o = o.class(if b.cal == "iso8601" { "calendar:iso8601" } else { "calendar:non-iso" });
                }
            }
        }
        match run_one(b, &p) {
            Pair::NoInput(why) => {
                o = o.class(why);
                o.nontrivial = false;
                o.unjudged = true;
            }
            Pair::CorePanic(pn) => {
                o = o.class("core-panicked(wrapper-not-called)").class(panic_label(&pn));
                o.unjudged = true;
            }
            Pair::Both(core, wrap) => {
                o = o.class(if core.is_ok() { "core:Ok" } else { "core:Err" });
                if core.is_ok() {
                    o = o.class(intern(format!("{label} [core Ok]")));
                }
                if core != wrap && wrap == Err("Generic".to_string()) && lock_poisoned() {
                    // a wrapper panic in another lane poisoned the lock between our two calls
                    o.unjudged = true;
                    return o.class("provider-lock-poisoned-by-an-earlier-wrapper-panic");
                }
                if core != wrap {
                    // defect model: microsecond()/nanosecond() forward to millisecond_with_provider
                    let mut sig = format!("C19/compiled/{}/mismatch", label);
                    if b.f == "ZonedDateTime::microsecond" || b.f == "ZonedDateTime::nanosecond" {
                        if let Some(z) = zdt(&b.a, &b.zone, &b.cal) {
                            if let Ok(ms) = guard(|| show_res(z.millisecond_with_provider(&p))) {
                                if wrap == ms && core.is_ok() {
                                    sig = format!("C19/compiled/{}/returns-millisecond", label);
                                }
                            }
                        }
                    }
                    o = o.fail(sig, format!("{core:?}"), format!("{wrap:?}"));
                }
            }
        }
        o
    }
}

// ---------------------------------------------------------------------------------------------
// Now::* (wall clock: structural comparison only)

#[derive(serde::Serialize, serde::Deserialize, Debug, Clone)]
pub struct NowCase {
    /// 0 plain_datetime_iso, 1 plain_date_iso, 2 plain_time_iso
    pub which: u8,
    /// zone identifier, "" = None (system zone)
    pub zone: String,
    pub rep: u32,
}

pub struct NowSub;

pub const NOW_NAMES: [&str; 3] = ["Now::plain_datetime_iso", "Now::plain_date_iso", "Now::plain_time_iso"];

impl SubCheck for NowSub {
    type Case = NowCase;
    fn name(&self) -> &'static str {
        "now"
    }
    fn eval(&self, c: &NowCase) -> Outcome {
        let label = NOW_NAMES[(c.which % 3) as usize];
        let mut o = Outcome::pass().class(label).nontrivial(true);
        if lock_poisoned() {
            o.unjudged = true;
            return o.class("provider-lock-poisoned-by-an-earlier-wrapper-panic");
        }
        let p = FsTzdbProvider::default();
        let arg: Option<TimeZone> = if c.zone.is_empty() { None } else { tz(&c.zone) };
        // the zone the wrapper must use
        let zone = match &arg {
            Some(t) => t.clone(),
            None => match Now::time_zone_identifier() {
                Ok(id) => TimeZone::IanaIdentifier(id),
                Err(e) => {
                    // no system zone: the wrapper must fail with the same kind
                    let r = match c.which % 3 {
                        0 => Now::plain_datetime_iso(None).map(|_| ()),
                        1 => Now::plain_date_iso(None).map(|_| ()),
                        _ => Now::plain_time_iso(None).map(|_| ()),
                    };
                    let got = r.as_ref().map_err(|x| kind_name(x.kind())).err();
                    if got != Some(kind_name(e.kind())) {
                        o = o.fail(format!("C19/now/{label}/system-zone-error"), kind_name(e.kind()), format!("{got:?}"));
                    }
                    return o.class("no-system-zone");
                }
            },
        };
        let Ok(t0) = Now::instant() else {
            o.unjudged = true;
            return o.class("clock-unavailable");
        };
        let got: Result<(Option<(i32, u8, u8)>, Option<i128>), String> = match c.which % 3 {
            0 => Now::plain_datetime_iso(arg.clone()).map(|d| (Some((d.iso_year(), d.iso_month(), d.iso_day())), Some(time_ns(&d.to_plain_time().unwrap())))),
            1 => Now::plain_date_iso(arg.clone()).map(|d| (Some((d.iso_year(), d.iso_month(), d.iso_day())), None)),
            _ => Now::plain_time_iso(arg.clone()).map(|t| (None, Some(time_ns(&t)))),
        }
        .map_err(|e| kind_name(e.kind()).to_string());
        let Ok(t1) = Now::instant() else {
            o.unjudged = true;
            return o.class("clock-unavailable");
        };
        // what the core gives for the two ends of the call interval
        let wall = |t: &Instant| -> Result<(i64, i128, i64), String> {
            let z = ZonedDateTime::try_new(t.as_i128(), Calendar::default(), zone.clone()).map_err(|e| kind_name(e.kind()).to_string())?;
            let off = z.offset_nanoseconds_with_provider(&p).map_err(|e| kind_name(e.kind()).to_string())?;
            let d = z.to_plain_datetime_with_provider(&p).map_err(|e| kind_name(e.kind()).to_string())?;
            Ok((to_days(d.iso_year() as i64, d.iso_month(), d.iso_day()), time_ns(&d.to_plain_time().unwrap()), off))
        };
        match (wall(&t0), wall(&t1), got) {
            (Ok(w0), Ok(w1), Ok((date, tod))) => {
                if w0.2 != w1.2 || t1.as_i128() < t0.as_i128() {
                    // a transition (or a clock step) inside the call interval: not judged
                    o.unjudged = true;
                    return o.class("offset-changed-during-call");
                }
                let lo = w0.0 as i128 * NS_PER_DAY + w0.1;
                let hi = w1.0 as i128 * NS_PER_DAY + w1.1;
                if let Some((y, m, d)) = date {
                    let n = to_days(y as i64, m, d);
                    if n < w0.0 || n > w1.0 {
                        o = o.fail(format!("C19/now/{label}/date-outside-call-interval"), format!("day {}..={}", w0.0, w1.0), format!("{y}-{m}-{d}"));
                    }
                    if let Some(ns) = tod {
                        let v = n as i128 * NS_PER_DAY + ns;
                        if v < lo || v > hi {
                            o = o.fail(format!("C19/now/{label}/outside-call-interval"), format!("{lo}..={hi}"), format!("{v}"));
                        }
                    }
                } else if let Some(ns) = tod {
                    let span = hi - lo;
                    let rel = (ns - w0.1).rem_euclid(NS_PER_DAY);
                    if rel > span {
                        o = o.fail(format!("C19/now/{label}/outside-call-interval"), format!("{}..+{}", w0.1, span), format!("{ns}"));
                    }
                }
                o.class("same-zone,instant-within-call-interval")
            }
            (Err(e0), _, Err(g)) | (_, Err(e0), Err(g)) => {
                if e0 != g {
                    o = o.fail(format!("C19/now/{label}/error-kind"), e0, g);
                }
                o.class("core:Err")
            }
            (w0, w1, g) => o.fail(format!("C19/now/{label}/ok-err-mismatch"), format!("{w0:?} {w1:?}"), format!("{g:?}")),
        }
    }
}
