//! String generators for C12. All randomness comes from a proptest-generated entropy tape (a vector of
//! u32 words consumed by `Tape::pick`, monotone scaling, 0 = the simplest alternative), so proptest
//! shrinking of the tape shrinks the choices; the systematic probe list is a pure function.

use super::{ParseCase, NPARSERS, P_CALENDAR, P_DATE, P_DATETIME, P_DURATION, P_INSTANT, P_MD, P_MONTHCODE, P_OFFSET, P_RELTO, P_TIME, P_TZID, P_TZSTR, P_YM, P_ZONED, P_ZONED_USE};
use crate::refm::civil::dim;
use proptest::prelude::*;

pub const CLASSES: [&str; 7] = ["g:valid", "g:mutated-1", "g:mutated-2..3", "g:splice", "g:arbitrary", "g:probe", "g:fuzz"];
pub const G_VALID: usize = 0;
pub const G_MUT1: usize = 1;
pub const G_MUT23: usize = 2;
pub const G_SPLICE: usize = 3;
pub const G_ARBITRARY: usize = 4;
pub const G_PROBE: usize = 5;
pub const G_FUZZ: usize = 6;

pub struct Tape<'a> {
    w: &'a [u32],
    i: usize,
}
impl<'a> Tape<'a> {
    pub fn new(w: &'a [u32]) -> Self {
        Tape { w, i: 0 }
    }
    fn next(&mut self) -> u32 {
        let v = self.w.get(self.i).copied().unwrap_or(0);
        self.i += 1;
        v
    }
    /// 0..n, monotone in the tape word
    pub fn pick(&mut self, n: usize) -> usize {
        ((self.next() as u64 * n as u64) >> 32) as usize
    }
    pub fn range(&mut self, lo: i64, hi: i64) -> i64 {
        lo + self.pick((hi - lo + 1) as usize) as i64
    }
    /// true with probability num/den; false is the "simple" outcome (tape word 0)
    pub fn chance(&mut self, num: usize, den: usize) -> bool {
        self.pick(den) >= den - num
    }
    pub fn of<'b, T: ?Sized>(&mut self, xs: &'b [&'b T]) -> &'b T {
        xs[self.pick(xs.len())]
    }
}

// ---------------------------------------------------------------------------------------------
// (a) grammar-derived valid strings

fn year(t: &mut Tape) -> (String, i64) {
    match t.pick(6) {
        0 => {
            let y = *t.of(&[&2020i64, &1970, &1972, &0, &1, &9999, &2021, &1900, &2000]);
            (format!("{y:04}"), y)
        }
        1 => {
            let y = t.range(0, 9999);
            (format!("{y:04}"), y)
        }
        2 => {
            let y = *t.of(&[&2020i64, &0, &-1, &10000, &-271821, &275760, &-271822, &275761, &999999, &-999999, &9999, &-100]);
            (format!("{}{:06}", if y < 0 { '-' } else { '+' }, y.abs()), y)
        }
        3 => {
            let y = t.range(-275_900, 275_900);
            (format!("{}{:06}", if y < 0 { '-' } else { '+' }, y.abs()), y)
        }
        4 => {
            let y = t.range(-999_999, 999_999);
            (format!("{}{:06}", if y < 0 { '-' } else { '+' }, y.abs()), y)
        }
        _ => {
            let y = t.range(1800, 2200);
            (format!("{y:04}"), y)
        }
    }
}

fn date(t: &mut Tape) -> String {
    let (ys, y) = year(t);
    let (m, d): (u8, u8) = match (y, t.pick(8)) {
        (-271821, 0..=3) => (4, [18, 19, 20, 30][t.pick(4)]),
        (275760, 0..=3) => (9, [12, 13, 14, 30][t.pick(4)]),
        _ => {
            let m = t.range(1, 12) as u8;
            let l = dim(y, m);
            let d = match t.pick(4) {
                0 => 1,
                1 => l,
                2 => t.range(28.min(l as i64), l as i64) as u8,
                _ => t.range(1, l as i64) as u8,
            };
            (m, d)
        }
    };
    if t.chance(1, 4) {
        format!("{ys}{m:02}{d:02}")
    } else {
        format!("{ys}-{m:02}-{d:02}")
    }
}

fn fraction(t: &mut Tape) -> String {
    let n = match t.pick(4) {
        0 => 3,
        1 => 9,
        2 => 1,
        _ => t.range(1, 9) as usize,
    };
    let mut s = String::from(if t.chance(1, 4) { "," } else { "." });
    for k in 0..n {
        let dgt = match t.pick(3) {
            0 => 0,
            1 => 9,
            _ => t.pick(10),
        };
        // keep at least one non-zero digit most of the time
        let dgt = if k == n - 1 && dgt == 0 && t.chance(3, 4) { 1 } else { dgt };
        s.push((b'0' + dgt as u8) as char);
    }
    s
}

fn hms(t: &mut Tape) -> (u8, u8, u8) {
    let h = match t.pick(4) {
        0 => 12,
        1 => 0,
        2 => 23,
        _ => t.pick(24) as u8,
    };
    let mi = match t.pick(4) {
        0 => 30,
        1 => 0,
        2 => 59,
        _ => t.pick(60) as u8,
    };
    let s = match t.pick(6) {
        0 => 0,
        1 => 59,
        2 => 60,
        _ => t.pick(60) as u8,
    };
    (h, mi, s)
}

fn time(t: &mut Tape) -> String {
    let (h, mi, s) = hms(t);
    match t.pick(8) {
        0 => format!("{h:02}:{mi:02}"),
        1 => format!("{h:02}:{mi:02}:{s:02}"),
        2 => format!("{h:02}:{mi:02}:{s:02}{}", fraction(t)),
        3 => format!("{h:02}"),
        4 => format!("{h:02}{mi:02}"),
        5 => format!("{h:02}{mi:02}{s:02}"),
        6 => format!("{h:02}{mi:02}{s:02}{}", fraction(t)),
        _ => format!("{h:02}:{mi:02}:{s:02}{}", fraction(t)),
    }
}

/// numeric offset text; `sub`: allow sub-minute shapes
fn num_offset(t: &mut Tape, sub: bool) -> String {
    let sign = if t.chance(1, 2) { '-' } else { '+' };
    let (h, mi): (u8, u8) = match t.pick(6) {
        0 => (0, 0),
        1 => (5, 30),
        2 => (5, 0),
        3 => (23, 59),
        4 => (t.pick(24) as u8, [0u8, 15, 30, 45][t.pick(4)]),
        _ => (t.pick(24) as u8, t.pick(60) as u8),
    };
    let s = match t.pick(3) {
        0 => 0,
        1 => 30,
        _ => t.pick(60) as u8,
    };
    match t.pick(if sub { 9 } else { 3 }) {
        0 => format!("{sign}{h:02}:{mi:02}"),
        1 => format!("{sign}{h:02}{mi:02}"),
        2 => format!("{sign}{h:02}"),
        3 => format!("{sign}{h:02}:{mi:02}:{s:02}"),
        4 => format!("{sign}{h:02}{mi:02}{s:02}"),
        5 => format!("{sign}{h:02}:{mi:02}:{s:02}{}", fraction(t)),
        6 => format!("{sign}{h:02}{mi:02}{s:02}{}", fraction(t)),
        7 => format!("{sign}{h:02}:{mi:02}:00"),
        _ => format!("{sign}{h:02}:{mi:02}"),
    }
}

fn dt_offset(t: &mut Tape) -> String {
    match t.pick(8) {
        0 => "Z".into(),
        1 => "z".into(),
        2 => "+00:00".into(),
        _ => num_offset(t, true),
    }
}

const ZONE_NAMES: [&str; 14] = [
    "UTC", "utc", "Etc/GMT+5", "Asia/Kolkata", "etc/gmt+5", "America/New_York", "Europe/Paris", "Etc/GMT-14", "_x/.y", "A", "America/Argentina/Buenos_Aires", "Uct", "GMT0", "Z",
];

fn zone_annotation(t: &mut Tape) -> String {
    let bang = if t.chance(1, 5) { "!" } else { "" };
    match t.pick(4) {
        0 | 1 => format!("[{bang}{}]", t.of(&ZONE_NAMES)),
        2 => format!("[{bang}{}]", *t.of(&[&"+05:30", &"+00:00", &"-05:00", &"+0530", &"-05", &"+00", &"-00:00"])),
        _ => format!("[{bang}{}]", num_offset(t, false)),
    }
}

const CALENDARS: [&str; 24] = [
    "iso8601", "gregory", "hebrew", "japanese", "ISO8601", "Gregory", "buddhist", "chinese", "coptic", "dangi", "ethioaa", "ethiopic", "indian", "islamic", "islamic-civil",
    "islamic-tbla", "islamic-umalqura", "persian", "roc", "iso", "islamicc", "japanext", "notacal", "gregorian",
];

fn annotation(t: &mut Tape) -> String {
    let bang = if t.chance(1, 5) { "!" } else { "" };
    match t.pick(5) {
        0 | 1 => format!("[{bang}u-ca={}]", *t.of(&[&"iso8601", &"gregory", &"hebrew", &"ISO8601", &"japanese"])),
        2 => format!("[{bang}u-ca={}]", t.of(&CALENDARS)),
        3 => format!("[{bang}{}]", *t.of(&[&"foo=bar", &"x=1", &"_k-1=a-b-c", &"u-nu=latn", &"u-cb=iso8601", &"u-ca0=gregory", &"abc=0-0"])),
        _ => format!("[{bang}u-ca=iso8601]"),
    }
}

fn suffix(t: &mut Tape, zone: u8) -> String {
    // zone: 0 = sometimes, 1 = always, 2 = never
    let mut s = String::new();
    let with_zone = match zone {
        1 => true,
        2 => false,
        _ => t.chance(1, 3),
    };
    if with_zone {
        s.push_str(&zone_annotation(t));
    }
    let n = match t.pick(8) {
        0..=3 => 0,
        4 | 5 => 1,
        6 => 2,
        _ => 3,
    };
    for _ in 0..n {
        s.push_str(&annotation(t));
    }
    s
}

fn sep(t: &mut Tape) -> char {
    match t.pick(6) {
        0..=3 => 'T',
        4 => 't',
        _ => ' ',
    }
}

fn date_time(t: &mut Tape) -> String {
    let mut s = date(t);
    if !t.chance(1, 4) {
        s.push(sep(t));
        s.push_str(&time(t));
        if t.chance(1, 2) {
            s.push_str(&dt_offset(t));
        }
    }
    s.push_str(&suffix(t, 0));
    s
}

fn instant(t: &mut Tape) -> String {
    let mut s = date(t);
    s.push(sep(t));
    s.push_str(&time(t));
    s.push_str(&dt_offset(t));
    s.push_str(&suffix(t, 0));
    s
}

fn zoned(t: &mut Tape) -> String {
    let mut s = date(t);
    let mut tail = String::new();
    let zone = match t.pick(6) {
        0 => ("[UTC]", "+00:00"),
        1 => ("[Etc/GMT+5]", "-05:00"),
        2 => ("[Asia/Kolkata]", "+05:30"),
        3 => ("[+05:30]", "+05:30"),
        4 => ("[-05:00]", "-0500"),
        _ => ("", ""),
    };
    if !t.chance(1, 4) {
        s.push(sep(t));
        s.push_str(&time(t));
        match t.pick(5) {
            0 | 1 => {}
            2 => tail.push_str(zone.1),
            3 => tail.push_str(&dt_offset(t)),
            _ => tail.push('Z'),
        }
    }
    s.push_str(&tail);
    if zone.0.is_empty() {
        s.push_str(&suffix(t, 1));
    } else {
        s.push_str(zone.0);
        s.push_str(&suffix(t, 2));
    }
    s
}

fn time_string(t: &mut Tape) -> String {
    let mut s = String::new();
    match t.pick(4) {
        0 => s.push('T'),
        1 => s.push('t'),
        _ => {}
    }
    s.push_str(&time(t));
    if t.chance(1, 3) {
        s.push_str(&num_offset(t, true));
    }
    s.push_str(&suffix(t, 0));
    s
}

fn year_month(t: &mut Tape) -> String {
    let (ys, y) = year(t);
    let m = match (y, t.pick(3)) {
        (-271821, 0) => [3, 4, 5][t.pick(3)],
        (275760, 0) => [8, 9, 10][t.pick(3)],
        _ => t.range(1, 12),
    };
    let mut s = if t.chance(1, 4) { format!("{ys}{m:02}") } else { format!("{ys}-{m:02}") };
    s.push_str(&suffix(t, 0));
    s
}

fn month_day(t: &mut Tape) -> String {
    let m = t.range(1, 12) as u8;
    let l = dim(1972, m);
    let d = match t.pick(3) {
        0 => l,
        1 => 1,
        _ => t.range(1, l as i64) as u8,
    };
    let mut s = match t.pick(4) {
        0 => format!("{m:02}-{d:02}"),
        1 => format!("--{m:02}-{d:02}"),
        2 => format!("{m:02}{d:02}"),
        _ => format!("--{m:02}{d:02}"),
    };
    s.push_str(&suffix(t, 0));
    s
}

fn dur_number(t: &mut Tape, big: &[&str]) -> String {
    match t.pick(8) {
        0 => "1".into(),
        1 => "0".into(),
        2 => t.range(0, 99).to_string(),
        3 => t.range(0, 100_000).to_string(),
        4 => (*t.of(big)).to_string(),
        5 => format!("{:03}", t.range(0, 99)),
        _ => t.range(1, 12).to_string(),
    }
}

fn duration(t: &mut Tape) -> String {
    let mut s = String::new();
    match t.pick(5) {
        0 => s.push('-'),
        1 => s.push('+'),
        _ => {}
    }
    let lower = t.chance(1, 6);
    let d = |c: char| if lower { c.to_ascii_lowercase() } else { c };
    s.push(d('P'));
    let mask = match t.pick(6) {
        0 => 1 << t.pick(7),
        1 => 0b1111111,
        2 => 0b0001111,
        3 => 0b1110000,
        _ => t.pick(128),
    };
    let mask = if mask == 0 { 0b1000 } else { mask };
    let big32: [&str; 4] = ["4294967295", "4294967296", "4294967294", "99999999999"];
    let bigd: [&str; 4] = ["104249991374", "104249991375", "100000000", "99999999999999999999"];
    let bigh: [&str; 4] = ["2501999792983", "2501999792984", "150119987579016", "150119987579017"];
    let bigs: [&str; 5] = ["9007199254740991", "9007199254740992", "9007199254740993", "18446744073709551615", "18446744073709551616"];
    for (i, c) in ['Y', 'M', 'W', 'D'].iter().enumerate() {
        if mask & (1 << i) != 0 {
            s.push_str(&dur_number(t, if i == 3 { &bigd } else { &big32 }));
            s.push(d(*c));
        }
    }
    if mask & 0b1110000 != 0 {
        s.push(d('T'));
        let last = (4..7).rev().find(|i| mask & (1 << i) != 0).unwrap();
        for (i, c) in [(4, 'H'), (5, 'M'), (6, 'S')] {
            if mask & (1 << i) != 0 {
                s.push_str(&dur_number(t, if i == 6 { &bigs } else { &bigh }));
                if i == last && t.chance(1, 2) {
                    s.push_str(&fraction(t));
                }
                s.push(d(c));
            }
        }
    }
    s
}

fn month_code(t: &mut Tape) -> String {
    let n = match t.pick(3) {
        0 => t.range(1, 13),
        1 => t.range(0, 99),
        _ => t.range(1, 12),
    };
    format!("M{n:02}{}", if t.chance(1, 3) { "L" } else { "" })
}

fn calendar_id(t: &mut Tape) -> String {
    let c = t.of(&CALENDARS);
    match t.pick(4) {
        0 => c.to_ascii_uppercase(),
        _ => c.to_string(),
    }
}

fn tz_id(t: &mut Tape) -> String {
    match t.pick(3) {
        0 => num_offset(t, false),
        1 => num_offset(t, true),
        _ => (*t.of(&ZONE_NAMES)).to_string(),
    }
}

const NFORMS: usize = 12;
/// a valid (by construction, up to value limits) string of form `f` and the parsers whose home form it is
fn valid(t: &mut Tape, f: usize) -> (String, &'static [usize]) {
    match f {
        0 => (date_time(t), &[P_DATE, P_DATETIME, P_YM, P_MD, P_TIME, P_CALENDAR, P_TZSTR, P_RELTO]),
        1 => (instant(t), &[P_INSTANT, P_TZSTR, P_DATETIME]),
        2 => (zoned(t), &[P_ZONED, P_ZONED_USE, P_RELTO, P_TZSTR, P_INSTANT]),
        3 => (time_string(t), &[P_TIME, P_TZSTR, P_CALENDAR]),
        4 => (year_month(t), &[P_YM, P_TIME, P_TZSTR]),
        5 => (month_day(t), &[P_MD, P_TIME, P_CALENDAR]),
        6 | 7 => (duration(t), &[P_DURATION]),
        8 => (num_offset(t, true), &[P_OFFSET, P_TZID, P_TZSTR]),
        9 => (tz_id(t), &[P_TZID, P_TZSTR]),
        10 => (month_code(t), &[P_MONTHCODE]),
        _ => (calendar_id(t), &[P_CALENDAR]),
    }
}

// ---------------------------------------------------------------------------------------------
// (b) mutations, (c) arbitrary strings

const ALPHABET: [char; 62] = [
    '0', '1', '2', '3', '4', '5', '6', '7', '8', '9', '0', '1', '2', '5', '6', '9', '+', '-', '-', ':', ':', '.', ',', 'T', 't', 'Z', 'z', '[', ']', '[', ']', '!', '=', '/', ' ', 'P', 'p', 'Y', 'M',
    'W', 'D', 'H', 'S', 'L', 'u', 'c', 'a', '_', 'x', 'e', 'U', 'C', '\u{2212}', '\u{e9}', '\u{660}', '\u{ff11}', '\u{1f600}', '\0', '\n', '~', '%', '\u{3a9}',
];

fn mutate(t: &mut Tape, s: &str, edits: usize) -> String {
    let mut v: Vec<char> = s.chars().collect();
    for _ in 0..edits {
        let op = t.pick(7);
        let n = v.len();
        match op {
            0 if n > 0 => {
                // substitute; digits mostly by digits
                let i = t.pick(n);
                v[i] = if v[i].is_ascii_digit() && t.chance(2, 3) { (b'0' + t.pick(10) as u8) as char } else { ALPHABET[t.pick(ALPHABET.len())] };
            }
            1 => {
                let i = t.pick(n + 1);
                v.insert(i, ALPHABET[t.pick(ALPHABET.len())]);
            }
            2 if n > 0 => {
                v.remove(t.pick(n));
            }
            3 if n > 1 => {
                let i = t.pick(n - 1);
                v.swap(i, i + 1);
            }
            4 if n > 0 => {
                let i = t.pick(n);
                v.insert(i, v[i]);
            }
            5 if n > 0 => {
                v.truncate(t.pick(n));
            }
            6 if n > 0 => {
                // case flip
                let i = t.pick(n);
                v[i] = if v[i].is_ascii_lowercase() { v[i].to_ascii_uppercase() } else { v[i].to_ascii_lowercase() };
            }
            _ => {
                let i = t.pick(n + 1);
                v.insert(i, ALPHABET[t.pick(ALPHABET.len())]);
            }
        }
    }
    v.into_iter().collect()
}

fn arbitrary(t: &mut Tape) -> String {
    let n = t.pick(13);
    let mut s = String::new();
    let mode = t.pick(3);
    for _ in 0..n {
        let c = match mode {
            0 => ALPHABET[t.pick(ALPHABET.len())],
            1 => (0x20 + t.pick(0x5f) as u8) as char,
            _ => char::from_u32(t.pick(0x2600) as u32).unwrap_or('\u{fffd}'),
        };
        s.push(c);
    }
    s
}

pub fn build(words: &[u32]) -> ParseCase {
    let mut t = Tape::new(words);
    let class = match t.pick(10) {
        0 | 1 => G_VALID,
        2 | 3 | 4 => G_MUT1,
        5 | 6 => G_MUT23,
        7 | 8 => G_SPLICE,
        _ => G_ARBITRARY,
    };
    let f = t.pick(NFORMS);
    let any_parser = t.chance(1, 2);
    let p_any = t.pick(NPARSERS);
    let home_ix = t.next();
    let (s, homes): (String, &[usize]) = match class {
        G_VALID => valid(&mut t, f),
        G_MUT1 => {
            let (b, h) = valid(&mut t, f);
            (mutate(&mut t, &b, 1), h)
        }
        G_MUT23 => {
            let (b, h) = valid(&mut t, f);
            let n = 2 + t.pick(2);
            (mutate(&mut t, &b, n), h)
        }
        G_SPLICE => {
            let (a, h) = valid(&mut t, f);
            let g = if t.chance(1, 2) { t.pick(NFORMS) } else { f };
            let (b, _) = valid(&mut t, g);
            let (ac, bc): (Vec<char>, Vec<char>) = (a.chars().collect(), b.chars().collect());
            let i = t.pick(ac.len() + 1);
            let j = t.pick(bc.len() + 1);
            (ac[..i].iter().chain(bc[j..].iter()).collect(), h)
        }
        _ => (arbitrary(&mut t), &[]),
    };
    let p = if any_parser || homes.is_empty() { p_any } else { homes[(home_ix as u64 * homes.len() as u64 >> 32) as usize] };
    ParseCase { p: p as u8, s, g: class as u8 }
}

pub fn strategy() -> BoxedStrategy<ParseCase> {
    proptest::collection::vec(any::<u32>(), 96).prop_map(|w| build(&w)).boxed()
}

// ---------------------------------------------------------------------------------------------
// (d) systematic probes

pub fn probes() -> Vec<String> {
    let mut out: Vec<String> = vec![];
    let dates = [
        "2020-01-01", "20200101", "+002020-01-01", "-000000-01-01", "+000000-01-01", "-0000000101", "2020-02-30", "2021-02-29", "2020-02-29", "-271821-04-19", "-271821-04-18", "-271821-04-20",
        "+275760-09-13", "+275760-09-14", "+275760-09-12", "0000-01-01", "9999-12-31", "2020-00-01", "2020-13-01", "2020-01-00", "2020-01-32", "2020-0101", "202001-01", "02020-01-01", "+2020-01-01",
        "1972-02-29", "+999999-12-31", "-999999-01-01",
    ];
    let times = [
        "T00:00", "T12", "t12:30", " 12:30:45", "T123045", "T1230", "T12:30:60", "T23:59:59.999999999", "T00:00:00.1234567890", "T00:00:00,5", "T000000,123456789", "T24:00", "T00:60", "T00:00:61",
        "T1230:45", "T12:3045", "T12:30:45.", "T", "T1", "T00:00:00.0000000000", "T00:00:00.1234567891",
    ];
    let offsets = [
        "", "Z", "z", "+00:00", "-00:00", "+01", "-0130", "+05:30", "-05:00", "+01:30:15", "-013015", "+01:30:15.5", "+01:30:00", "+00:00:00.000000000", "+01:3015", "+0130:15", "+24:00", "-01:60",
        "+01:30:60", "+01:30:15.1234567890", "+01:30.5", "+1", "+01:", "\u{2212}01:00", "ZZ", "+05:30:00.000000001",
    ];
    let brackets = [
        "", "[UTC]", "[!UTC]", "[utc]", "[Etc/GMT+5]", "[Asia/Kolkata]", "[+05:30]", "[-0500]", "[+05]", "[+05:30:00]", "[+05:30:15]", "[+0530:00]", "[Not/Known]", "[u-ca=iso8601]", "[u-ca=gregory]",
        "[!u-ca=iso8601]", "[!u-ca=hebrew]", "[u-ca=iso8601][u-ca=gregory]", "[!u-ca=iso8601][u-ca=gregory]", "[u-ca=iso8601][!u-ca=iso8601]", "[u-ca=gregory][u-ca=gregory][!u-ca=gregory]",
        "[u-ca=nope]", "[!u-ca=nope]", "[foo=bar]", "[!foo=bar]", "[foo=bar][!x=y]", "[UTC][u-ca=hebrew]", "[u-ca=hebrew][UTC]", "[UTC][UTC]", "[U-CA=iso8601]", "[u-ca=ISO8601]", "[u-ca=]", "[=x]",
        "[u-ca=a_b]", "[UTC", "UTC]", "[]", "[!]", "[UTC][!foo=bar]", "[UTC][u-ca=islamicc]", "[u-ca=iso]", "[Z]", "[\u{2212}05:00]", "[UTC] ", "[u-ca=iso8601-x]", "[1x=y]", "[+24:00]", "[Etc/GMT+5][u-ca=japanese]",
    ];
    for d in dates {
        for b in brackets {
            out.push(format!("{d}{b}"));
        }
        for tm in times {
            for o in offsets {
                // full bracket cross product only on the first two time shapes; a rotating subset otherwise
                for (bi, b) in brackets.iter().enumerate() {
                    let full = tm == "T00:00" || tm == " 12:30:45";
                    if full || bi == 0 || (bi + out.len()) % 7 == 0 {
                        out.push(format!("{d}{tm}{o}{b}"));
                    }
                }
            }
        }
    }
    // time-only and short forms
    let short_brackets = ["", "[UTC]", "[!UTC]", "[+05:30]", "[u-ca=iso8601]", "[u-ca=gregory]", "[!u-ca=hebrew]", "[!foo=bar]", "[foo=bar]", "[UTC][u-ca=gregory]", "[u-ca=iso8601][!u-ca=iso8601]", "[u-ca=nope]", "[+05:30:00]"];
    for pre in ["", "T", "t", " "] {
        for tm in ["12", "12:30", "1230", "12:30:45", "123045", "12:30:45.123456789", "123045,5", "12:30:60", "24:00", "00:60", "12:30:45.1234567890", "1", "123", "12:3", "12:30:4", "1230:45", "12:3045"] {
            for o in ["", "Z", "+01:00", "-0800", "+01", "-01:30:15", "+013015.5", "+01:00:00", "-14", "-12", "+24"] {
                for b in short_brackets {
                    out.push(format!("{pre}{tm}{o}{b}"));
                }
            }
        }
    }
    for ym in ["2020-01", "202001", "+002020-01", "-000000-01", "2020-13", "2020-00", "-271821-04", "-271821-03", "+275760-09", "+275760-10", "2020-1", "20201", "2020-01-", "2020-01Z", "2020-01T12", "+000000-01", "-00000101"] {
        for b in short_brackets {
            out.push(format!("{ym}{b}"));
        }
    }
    for md in ["12-14", "1214", "--12-14", "--1214", "02-29", "02-30", "0230", "--0230", "04-31", "13-01", "00-01", "01-00", "01-32", "-12-14", "---12-14", "12--14", "--12-14T12", "12-14Z", "12-14+01:00", "--12-14 "] {
        for b in short_brackets {
            out.push(format!("{md}{b}"));
        }
    }
    // ambiguity rule: every DDDD and DD-DD string, a few HHMM-HH / HHMMSS families
    for a in 0..100 {
        for b in 0..100 {
            out.push(format!("{a:02}{b:02}"));
            out.push(format!("{a:02}-{b:02}"));
        }
    }
    for y in ["2021", "0000", "1959", "2359", "1200", "0001"] {
        for m in 0..100 {
            out.push(format!("{y}-{m:02}"));
            out.push(format!("{y}{m:02}"));
            out.push(format!("{y}+{m:02}"));
        }
    }
    // durations
    let ddate = ["", "1Y", "1M", "1W", "1D", "1Y2M", "1Y2M3W4D", "1Y1Y", "1M1Y", "1D1W", "1W1W", "1D1D", "4294967295Y", "4294967296Y", "4294967295M", "4294967296W", "104249991374D", "104249991375D", "1.5Y", "0Y", "00001D", "1", "Y", "1y2m3w4d", "1H", "1S"];
    let dtime = [
        "", "T", "T1H", "T1M", "T1S", "T1H2M3S", "T1.5H", "T1,5M", "T1.5S", "T1.5H30M", "T1.5M30S", "T1.5H0S", "T1H1H", "T1M1M", "T1S1S", "T1M1H", "T1S1M", "T0.123456789S", "T0.1234567890S", "T0.1234567890H",
        "T1.0000000000M", "T1.S", "T.5S", "T9007199254740991S", "T9007199254740992S", "T9007199254740991.999999999S", "T2501999792983H", "T2501999792984H", "T150119987579016M", "T150119987579017M",
        "T1H ", "T1HT1S", "T1D", "T1Y", "T1", "TS", "t1h2m3s", "T0.000000001H", "T0,999999999M", "T1H2.5M", "T18446744073709551616S", "T99999999999999999999999999999999999999S", "T1H2S",
    ];
    for sign in ["", "+", "-", "\u{2212}", "--", " "] {
        for p in ["P", "p"] {
            for d in ddate {
                for tm in dtime {
                    if sign.len() > 1 && !(d.len() <= 2 && tm.len() <= 3) {
                        continue;
                    }
                    out.push(format!("{sign}{p}{d}{tm}"));
                }
            }
        }
    }
    for s in ["", "P", "PT", "-P", "+p", "1Y", "PP1Y", "P1YP", "P1Y-", "P-1Y", "P+1Y", "P1Y2", "P 1Y", "P1 Y", "P1YT ", "P١Y"] {
        out.push(s.to_string());
    }
    // offsets: every +-HH:MM in three shapes, and invalid / sub-minute / junk tails
    for sign in ["+", "-"] {
        for h in 0..=24 {
            out.push(format!("{sign}{h:02}"));
            for m in (0..=60).filter(|m| h == 0 || h >= 23 || m % 7 == 0 || *m >= 58) {
                out.push(format!("{sign}{h:02}:{m:02}"));
                out.push(format!("{sign}{h:02}{m:02}"));
            }
        }
        for tail in [":00", ":30", "00", "30", ":00.0", ":30.5", "30.5", "00,000000000", ":", ".", ".5", "3", ":3", "x", " ", ":60", "60", ":00:00", "[UTC]", "Z", ":30.1234567890", ":00.", "0"] {
            out.push(format!("{sign}01:00{tail}"));
            out.push(format!("{sign}0100{tail}"));
        }
        for s in ["1", "1:00", "001:00", "01:0", "01:", "01:0:0", "1:0", "", "0", "00:", "24", "23:60", "99:99", "01-00", "01 00"] {
            out.push(format!("{sign}{s}"));
        }
    }
    for s in ["01:00", "0100", "Z", "z", "UTC", " +01:00", "+01:00 ", "\u{2212}01:00", "++01:00", "+-01:00", "±01:00"] {
        out.push(s.to_string());
    }
    // month codes
    for n in 0..100 {
        out.push(format!("M{n:02}"));
        out.push(format!("M{n:02}L"));
    }
    for s in ["M", "M1", "M1L", "m01", "M01l", "M01LL", "M001", "X01", "M0A", "MA1", "M01 ", " M01", "M01\0", "M١٢", "L01", "M-1", "M+1", "01", "M01M", "Ｍ01"] {
        out.push(s.to_string());
    }
    // calendar identifiers
    for c in CALENDARS {
        out.push(c.to_string());
        out.push(c.to_ascii_uppercase());
        out.push(format!(" {c}"));
        out.push(format!("{c} "));
        out.push(format!("u-ca={c}"));
        out.push(format!("[u-ca={c}]"));
        out.push(format!("2020-01-01[u-ca={c}]"));
        out.push(format!("2020-01[u-ca={c}]"));
        out.push(format!("01-01[u-ca={c}]"));
        out.push(format!("12:00[u-ca={c}]"));
        out.push(format!("2020-01-01T00:00[UTC][u-ca={c}]"));
        out.push(format!("2020-01-01T00:00Z[u-ca={c}]"));
    }
    for s in ["islamic-rgsa", "ethiopic-amete-alem", "iso-8601", "iso8601-", "-iso8601", "gregory-gregory", "islamic-", "islamic--civil", "a", "0", "é", "iso8601\0", "ıso8601", "ISO8601 "] {
        out.push(s.to_string());
    }
    // zone identifiers
    for z in ZONE_NAMES {
        out.push(z.to_string());
        out.push(format!("{z}/"));
        out.push(format!("/{z}"));
        out.push(format!("{z}//x"));
        out.push(format!("{z}/1x"));
        out.push(format!("{z}/-x"));
        out.push(format!("{z}/+x"));
        out.push(format!("{z}/x+1-2._"));
        out.push(format!("[{z}]"));
        out.push(format!("{z} "));
        out.push(format!("{z}é"));
    }
    for s in ["Z", "z", "É", "Ünicode/Zone", "Europe/Zürich", "Ωmega", "A/Б", "a b", "a=b", "a[b", "a]b", "a!b", "T12", "T12:00", "t1230+01", "-", "+", ".", "..", "_", "./.", "a/./b", "ａ"] {
        out.push(s.to_string());
    }
    out.sort();
    out.dedup();
    out
}
