//! Reference recognisers for the Temporal ISO 8601 / RFC 9557 string grammar (DESIGN.md Appendix B).
//!
//! Written from the grammar of the Temporal proposal (tc39/proposal-temporal, ABNF/early errors as of
//! early 2025) and the abstract operations that consume the parse (ParseISODateTime, ParseTemporalInstant,
//! ParseTemporalDurationString, ParseTimeZoneIdentifier, ParseTemporalTimeZoneString,
//! ParseTemporalCalendarString, ToTemporal*). No code of the `ixdtf` crate or of temporal_rs is used;
//! only `refm::civil` (calendar arithmetic, limits) and `refm::dur` (duration validity).
//!
//! Every judge function returns a `Ref`: the verdict (`Accept(value)`, `Reject`, `Unjudged(class)`) and
//! production labels for the evidence histogram.

use crate::refm::civil::*;
use crate::refm::dur::Dur;

#[derive(Clone, Debug, PartialEq, Eq)]
pub enum Tz {
    /// offset zone, minutes east of UTC
    Offset(i32),
    /// named zone, text as written
    Name(String),
}

#[derive(Clone, Debug, PartialEq, Eq)]
pub enum Value {
    Date { y: i64, m: u8, d: u8, cal: String },
    DateTime { y: i64, m: u8, d: u8, ns: i128, cal: String },
    Time { ns: i128 },
    /// `ref_day`: the hidden reference day (1 for every string, whatever day the string carried)
    YearMonth { y: i64, m: u8, ref_day: u8, cal: String },
    MonthDay { m: u8, d: u8, ref_year: i64, cal: String },
    Instant(i128),
    Duration([i128; 10]),
    /// minutes
    Offset(i32),
    MonthCode(String),
    Calendar(String),
    TimeZone(Tz),
    /// `ns` is None when the instant is not part of what C12 compares (Z / numeric offset given: C13)
    Zoned { ns: Option<i128>, tz: Tz, cal: String },
}

#[derive(Clone, Debug, PartialEq, Eq)]
pub enum Verdict {
    Accept(Value),
    Reject,
    Unjudged(&'static str),
}

#[derive(Clone, Debug)]
pub struct Ref {
    pub verdict: Verdict,
    pub labels: Vec<&'static str>,
}
impl Ref {
    fn reject() -> Ref {
        Ref { verdict: Verdict::Reject, labels: vec![] }
    }
    fn unjudged(c: &'static str) -> Ref {
        Ref { verdict: Verdict::Unjudged(c), labels: vec![] }
    }
    pub fn accepted(&self) -> Option<&Value> {
        match &self.verdict {
            Verdict::Accept(v) => Some(v),
            _ => None,
        }
    }
}

/// Options of the reference. `rx == 0` is the reference grammar. Every bit switches on ONE deliberate
/// deviation - a *defect model*: the reference with that bit set predicts what an implementation with that
/// one defect returns. The models are only used to give a failing case a narrow signature; verdicts always
/// come from `rx == 0`.
#[derive(Clone, Copy, Debug, Default)]
pub struct Opts {
    pub rx: u32,
}
/// a fraction of ten or more digits is accepted and read as zero
pub const RX_LONG_FRACTION: u32 = 1 << 0;
/// no ambiguity early error for designator-less time strings
pub const RX_AMBIGUOUS_TIME: u32 = 1 << 1;
/// offset `+-HH:MMSS[f]` (extended hour-minute separator, basic minute-second separator) accepted
pub const RX_MIXED_OFFSET_SEP: u32 = 1 << 2;
/// annotation value scanned with the first character, the character after each hyphen and the last
/// character not validated; needs two characters, and a character two places after each hyphen
pub const RX_ANN_VALUE: u32 = 1 << 3;
/// annotation key scanned with the last character not validated; needs two characters
pub const RX_ANN_KEY: u32 = 1 << 4;
/// zone annotation: kind decided by the first distinguishing character; name scanned with the last
/// character not validated, components may start with any zone character, trailing `/` accepted
pub const RX_ZONE_NAME: u32 = 1 << 5;
/// a zone annotation made only of annotation-key characters (e.g. `[utc]`) is rejected
pub const RX_LOWER_ZONE: u32 = 1 << 6;
/// short month-day form: the day is any two digits
pub const RX_MD_DAY: u32 = 1 << 7;
/// a numeric offset with seconds used as the zone of a time-zone string is truncated to minutes
pub const RX_SUBMIN_TRUNC: u32 = 1 << 8;
/// duration: a designator may repeat, the last value wins
pub const RX_DUR_REPEAT: u32 = 1 << 9;
/// duration: `P` without any component is zero
pub const RX_DUR_EMPTY: u32 = 1 << 10;
/// PlainMonthDay: the full date(-time) form is rejected
pub const RX_MD_FULL_REJECT: u32 = 1 << 11;
/// zoned strings: the written offset is read as hours + minutes + (minutes again as seconds) + fraction
pub const RX_ZONED_OFFSET_MINUTES: u32 = 1 << 12;
/// relativeTo: `Z` rejected even with a zone annotation
pub const RX_RELTO_Z: u32 = 1 << 13;
/// time-zone / calendar strings: `Z` accepted in the time-only shape
pub const RX_TIME_Z: u32 = 1 << 14;
/// short year-month / month-day forms: anything may follow the last annotation
pub const RX_SHORT_TRAILING: u32 = 1 << 15;
/// time-only shape of time-zone / calendar strings: duplicate calendars with a critical flag are only
/// rejected when their values differ
pub const RX_TIME_DUP_CAL: u32 = 1 << 16;
/// the seconds of a numeric offset may be 60
pub const RX_OFFSET_SEC_60: u32 = 1 << 17;
/// a numeric offset `+-HH:MM:` with a dangling separator before the end or an annotation
pub const RX_OFFSET_TRAILING_COLON: u32 = 1 << 18;
pub const RX_COUNT: u32 = 19;
pub const RX_NAMES: [&str; RX_COUNT as usize] = [
    "fraction-over-9-digits-dropped",
    "ambiguous-time-without-designator",
    "offset-HH:MMSS-mixed-separators",
    "annotation-value-scan",
    "annotation-key-scan",
    "zone-annotation-name-scan",
    "key-like-zone-annotation",
    "short-month-day-day-not-validated",
    "sub-minute-offset-truncated-as-zone",
    "repeated-designator-last-wins",
    "designator-P-without-components",
    "full-date-form",
    "offset-minutes-counted-again-as-seconds",
    "Z-with-zone-annotation",
    "utc-designator-in-time-only-string",
    "short-form-trailing-text-after-annotations",
    "duplicate-critical-calendar-same-value-in-time-only-string",
    "offset-seconds-60",
    "offset-dangling-separator",
];

// ---------------------------------------------------------------------------------------------
// lexical layer

#[derive(Clone)]
struct Cur<'a> {
    b: &'a [u8],
    i: usize,
    rx: u32,
}
impl<'a> Cur<'a> {
    fn new(s: &'a str) -> Self {
        Cur { b: s.as_bytes(), i: 0, rx: 0 }
    }
    fn with(s: &'a str, rx: u32) -> Self {
        Cur { b: s.as_bytes(), i: 0, rx }
    }
    fn peek(&self) -> Option<u8> {
        self.b.get(self.i).copied()
    }
    fn peek_at(&self, k: usize) -> Option<u8> {
        self.b.get(self.i + k).copied()
    }
    fn eof(&self) -> bool {
        self.i >= self.b.len()
    }
    fn eat(&mut self, c: u8) -> bool {
        if self.peek() == Some(c) {
            self.i += 1;
            true
        } else {
            false
        }
    }
    fn eat_any(&mut self, cs: &[u8]) -> Option<u8> {
        match self.peek() {
            Some(c) if cs.contains(&c) => {
                self.i += 1;
                Some(c)
            }
            _ => None,
        }
    }
    fn is_digit(&self) -> bool {
        matches!(self.peek(), Some(b'0'..=b'9'))
    }
    /// exactly n decimal digits
    fn digits(&mut self, n: usize) -> Option<u32> {
        let mut v = 0u32;
        for k in 0..n {
            match self.peek_at(k) {
                Some(c @ b'0'..=b'9') => v = v * 10 + (c - b'0') as u32,
                _ => return None,
            }
        }
        self.i += n;
        Some(v)
    }
    /// one or more digits, value saturating at 10^22 (far above every limit, no overflow in validity sums)
    fn number(&mut self) -> Option<i128> {
        let mut v: i128 = 0;
        let mut n = 0;
        while let Some(c @ b'0'..=b'9') = self.peek() {
            v = (v * 10 + (c - b'0') as i128).min(10_000_000_000_000_000_000_000);
            self.i += 1;
            n += 1;
        }
        if n == 0 {
            None
        } else {
            Some(v)
        }
    }
    /// TemporalDecimalFraction: `.`|`,` then 1..=9 digits. Ok(None) = no separator here;
    /// Err = separator present but not followed by 1..=9 digits.
    fn fraction(&mut self, labels: &mut Vec<&'static str>) -> Result<Option<u32>, ()> {
        let Some(sep) = self.eat_any(b".,") else {
            return Ok(None);
        };
        let mut v = 0u32;
        let mut n = 0u32;
        while let Some(c @ b'0'..=b'9') = self.peek() {
            n += 1;
            if n > 9 {
                if self.rx & RX_LONG_FRACTION != 0 {
                    // defect model: the whole fraction is dropped
                    while self.is_digit() {
                        self.i += 1;
                    }
                    return Ok(Some(0));
                }
                return Err(());
            }
            v = v * 10 + (c - b'0') as u32;
            self.i += 1;
        }
        if n == 0 {
            return Err(());
        }
        labels.push(if sep == b',' { "frac-comma" } else { "frac-dot" });
        labels.push(match n {
            1 => "frac-1",
            9 => "frac-9",
            _ => "frac-2..8",
        });
        Ok(Some(v * 10u32.pow(9 - n)))
    }
}

#[derive(Clone, Copy, Debug, PartialEq, Eq)]
pub struct TimeRec {
    pub h: u8,
    pub mi: u8,
    /// as written, 0..=60
    pub s: u8,
    pub frac_ns: u32,
}
impl TimeRec {
    /// ns of day; second 60 reads as 59
    pub fn ns(&self) -> i128 {
        ((self.h as i128 * 60 + self.mi as i128) * 60 + self.s.min(59) as i128) * 1_000_000_000 + self.frac_ns as i128
    }
}

#[derive(Clone, Copy, Debug, PartialEq, Eq)]
pub struct NumOff {
    pub neg: bool,
    pub h: u8,
    pub mi: u8,
    pub s: u8,
    pub frac_ns: u32,
    /// a seconds component was written (sub-minute shape)
    pub has_seconds: bool,
}
impl NumOff {
    pub fn ns(&self) -> i128 {
        let v = ((self.h as i128 * 60 + self.mi as i128) * 60 + self.s as i128) * 1_000_000_000 + self.frac_ns as i128;
        if self.neg {
            -v
        } else {
            v
        }
    }
    pub fn minutes(&self) -> i32 {
        let v = self.h as i32 * 60 + self.mi as i32;
        if self.neg {
            -v
        } else {
            v
        }
    }
    pub fn sub_minute_nonzero(&self) -> bool {
        self.s != 0 || self.frac_ns != 0
    }
}

#[derive(Clone, Copy, Debug, PartialEq, Eq)]
pub enum Off {
    Z,
    Num(NumOff),
}

#[derive(Clone, Debug, Default)]
pub struct Iso<'a> {
    pub year: Option<i64>,
    pub month: Option<u8>,
    pub day: Option<u8>,
    pub time: Option<TimeRec>,
    pub offset: Option<Off>,
    /// (critical, zone)
    pub zone: Option<(bool, Tz)>,
    /// (critical, key, value)
    pub anns: Vec<(bool, &'a str, &'a str)>,
    pub labels: Vec<&'static str>,
    /// defect model RX_TIME_DUP_CAL applies to this parse
    pub dup_cal_same_value_ok: bool,
}

/// DateYear: 4 digits | sign 6 digits, "-000000" is an early error
fn date_year(c: &mut Cur, labels: &mut Vec<&'static str>) -> Option<i64> {
    if let Some(sign) = c.eat_any(b"+-") {
        let v = c.digits(6)? as i64;
        if sign == b'-' && v == 0 {
            return None;
        }
        labels.push("year-signed-6");
        Some(if sign == b'-' { -v } else { v })
    } else {
        let v = c.digits(4)? as i64;
        labels.push("year-4");
        Some(v)
    }
}
fn date_month(c: &mut Cur) -> Option<u8> {
    let m = c.digits(2)?;
    if (1..=12).contains(&m) {
        Some(m as u8)
    } else {
        None
    }
}
fn date_day(c: &mut Cur) -> Option<u8> {
    let d = c.digits(2)?;
    if (1..=31).contains(&d) {
        Some(d as u8)
    } else {
        None
    }
}
/// Date: Y-MM-DD | YMMDD, valid in the proleptic Gregorian calendar
fn date(c: &mut Cur, labels: &mut Vec<&'static str>) -> Option<(i64, u8, u8)> {
    let y = date_year(c, labels)?;
    let ext = c.eat(b'-');
    let m = date_month(c)?;
    if ext && !c.eat(b'-') {
        return None;
    }
    let d = date_day(c)?;
    if d > dim(y, m) {
        return None;
    }
    labels.push(if ext { "date-extended" } else { "date-basic" });
    Some((y, m, d))
}

/// Time: HH | HH:MM | HHMM | HH:MM:SS[f] | HHMMSS[f]
fn time(c: &mut Cur, labels: &mut Vec<&'static str>) -> Option<TimeRec> {
    let h = c.digits(2)?;
    if h > 23 {
        return None;
    }
    let mut t = TimeRec { h: h as u8, mi: 0, s: 0, frac_ns: 0 };
    let ext = c.eat(b':');
    if !ext && !c.is_digit() {
        labels.push("time-hh");
        return Some(t);
    }
    let mi = c.digits(2)?;
    if mi > 59 {
        return None;
    }
    t.mi = mi as u8;
    let more = if ext { c.eat(b':') } else { c.is_digit() };
    if !more {
        labels.push(if ext { "time-hh:mm" } else { "time-hhmm" });
        return Some(t);
    }
    let s = c.digits(2)?;
    if s > 60 {
        return None;
    }
    t.s = s as u8;
    if s == 60 {
        labels.push("second-60");
    }
    labels.push(if ext { "time-hh:mm:ss" } else { "time-hhmmss" });
    match c.fraction(labels) {
        Ok(Some(f)) => t.frac_ns = f,
        Ok(None) => {}
        Err(()) => return None,
    }
    Some(t)
}

/// UTCOffset[SubMinutePrecision]
fn num_offset(c: &mut Cur, sub: bool, labels: &mut Vec<&'static str>) -> Option<NumOff> {
    let sign = c.eat_any(b"+-")?;
    let h = c.digits(2)?;
    if h > 23 {
        return None;
    }
    let mut o = NumOff { neg: sign == b'-', h: h as u8, mi: 0, s: 0, frac_ns: 0, has_seconds: false };
    let ext = c.eat(b':');
    if !ext && !c.is_digit() {
        labels.push("offset-hh");
        return Some(o);
    }
    let mi = c.digits(2)?;
    if mi > 59 {
        return None;
    }
    o.mi = mi as u8;
    if !sub {
        labels.push(if ext { "offset-hh:mm" } else { "offset-hhmm" });
        return Some(o);
    }
    if ext && c.rx & RX_OFFSET_TRAILING_COLON != 0 && c.peek() == Some(b':') && matches!(c.peek_at(1), None | Some(b'[')) {
        c.i += 1;
        labels.push("offset-hh:mm");
        return Some(o);
    }
    let more = if ext { c.eat(b':') || (c.rx & RX_MIXED_OFFSET_SEP != 0 && c.is_digit()) } else { c.is_digit() };
    if !more {
        labels.push(if ext { "offset-hh:mm" } else { "offset-hhmm" });
        return Some(o);
    }
    let s = c.digits(2)?;
    if s > 59 && !(s == 60 && c.rx & RX_OFFSET_SEC_60 != 0) {
        return None;
    }
    o.s = s as u8;
    o.has_seconds = true;
    labels.push(if ext { "offset-hh:mm:ss" } else { "offset-hhmmss" });
    match c.fraction(labels) {
        Ok(Some(f)) => {
            o.frac_ns = f;
            labels.push("offset-fraction");
        }
        Ok(None) => {}
        Err(()) => return None,
    }
    Some(o)
}

fn date_time_offset(c: &mut Cur, labels: &mut Vec<&'static str>) -> Result<Option<Off>, ()> {
    match c.peek() {
        Some(b'Z') | Some(b'z') => {
            labels.push(if c.peek() == Some(b'z') { "offset-z-lower" } else { "offset-Z" });
            c.i += 1;
            Ok(Some(Off::Z))
        }
        Some(b'+') | Some(b'-') => num_offset(c, true, labels).map(|o| Some(Off::Num(o))).ok_or(()),
        _ => Ok(None),
    }
}

fn is_alpha(c: u8) -> bool {
    c.is_ascii_alphabetic()
}
fn is_tz_leading(c: u8) -> bool {
    is_alpha(c) || c == b'.' || c == b'_'
}
fn is_tz_char(c: u8) -> bool {
    is_tz_leading(c) || c.is_ascii_digit() || c == b'-' || c == b'+'
}
/// TimeZoneIANAName, whole text
pub fn is_iana_name(s: &str) -> bool {
    if s.is_empty() {
        return false;
    }
    s.split('/').all(|comp| {
        let b = comp.as_bytes();
        !b.is_empty() && is_tz_leading(b[0]) && b[1..].iter().all(|c| is_tz_char(*c))
    })
}
/// AnnotationValue, whole text
pub fn is_annotation_value(s: &str) -> bool {
    !s.is_empty() && s.split('-').all(|comp| !comp.is_empty() && comp.bytes().all(|c| c.is_ascii_alphanumeric()))
}

/// TimeZoneIdentifier, whole text: UTCOffset[~SubMinutePrecision] | TimeZoneIANAName
fn tz_identifier_text(s: &str, labels: &mut Vec<&'static str>) -> Option<Tz> {
    if s.starts_with('+') || s.starts_with('-') {
        let mut c = Cur::new(s);
        let mut l = vec![];
        let o = num_offset(&mut c, false, &mut l)?;
        if !c.eof() {
            return None;
        }
        labels.push("zone-offset");
        return Some(Tz::Offset(o.minutes()));
    }
    if is_iana_name(s) {
        labels.push("zone-name");
        return Some(Tz::Name(s.to_string()));
    }
    None
}

fn is_key_lead(c: char) -> bool {
    c.is_ascii_lowercase() || c == '_'
}
fn is_key_char(c: char) -> bool {
    is_key_lead(c) || c.is_ascii_digit() || c == '-'
}
fn is_tz_char_c(c: char) -> bool {
    c.is_ascii() && is_tz_char(c as u8)
}
/// char at byte index i of src and the index of the next char
fn char_at(src: &str, i: usize) -> Option<(char, usize)> {
    let c = src.get(i..)?.chars().next()?;
    Some((c, i + c.len_utf8()))
}

/// kind of the first bracket group: Some(true) = zone annotation. Reference: a group containing `=` is
/// a key-value annotation. RX_ZONE_NAME: decided by the first distinguishing character.
fn decide_zone(src: &str, i: usize, rx: u32) -> Option<bool> {
    if rx & RX_ZONE_NAME == 0 {
        let rest = &src.as_bytes()[i..];
        let end = rest.iter().position(|c| *c == b']' || *c == b'[').unwrap_or(rest.len());
        return Some(!rest[..end].contains(&b'='));
    }
    let (lead, mut k) = char_at(src, i)?;
    if !(lead.is_ascii() && (is_tz_leading(lead as u8) || lead == '+' || lead == '-')) {
        return None;
    }
    if !is_key_lead(lead) {
        return Some(true);
    }
    loop {
        let (ch, nx) = char_at(src, k)?;
        if ch == '/' || (is_tz_char_c(ch) && !is_key_char(ch)) {
            return Some(true);
        }
        if ch == '=' {
            return Some(false);
        }
        if ch == ']' {
            // only key characters up to the bracket: the reference reads a zone name
            return Some(true);
        }
        k = nx;
    }
}

/// zone text starting at byte i; returns the byte index of the closing bracket
fn scan_zone(src: &str, i: usize, rx: u32) -> Option<usize> {
    let b = src.as_bytes();
    let signed = matches!(b.get(i), Some(b'+') | Some(b'-'));
    if rx & RX_ZONE_NAME == 0 || signed {
        let mut k = i;
        while k < b.len() && b[k] != b']' && b[k] != b'[' {
            k += 1;
        }
        return if b.get(k) == Some(&b']') { Some(k) } else { None };
    }
    // defect model
    let (lead, _) = char_at(src, i)?;
    if !(lead.is_ascii() && is_tz_leading(lead as u8)) {
        return None;
    }
    let mut k = i;
    loop {
        let (ch, nx) = char_at(src, k)?;
        let following = char_at(src, nx).map(|x| x.0);
        if following == Some(']') {
            return Some(nx);
        }
        if ch == '/' {
            if !following.is_some_and(is_tz_char_c) {
                return None;
            }
        } else if !is_tz_char_c(ch) {
            return None;
        }
        k = nx;
    }
}

/// annotation key starting at byte i; returns the byte index of `=`
fn scan_key(src: &str, i: usize, rx: u32) -> Option<usize> {
    let (lead, mut k) = char_at(src, i)?;
    if !is_key_lead(lead) {
        return None;
    }
    if rx & RX_ANN_KEY == 0 {
        loop {
            let (ch, nx) = char_at(src, k)?;
            if ch == '=' {
                return Some(k);
            }
            if !is_key_char(ch) {
                return None;
            }
            k = nx;
        }
    }
    // defect model
    loop {
        let (ch, nx) = char_at(src, k)?;
        if char_at(src, nx).map(|x| x.0) == Some('=') {
            return Some(nx);
        }
        if !is_key_char(ch) {
            return None;
        }
        k = nx;
    }
}

/// annotation value starting at byte i; returns the byte index of the closing bracket
fn scan_value(src: &str, i: usize, rx: u32) -> Option<usize> {
    if rx & RX_ANN_VALUE == 0 {
        let b = src.as_bytes();
        let mut k = i;
        loop {
            let st = k;
            while k < b.len() && b[k].is_ascii_alphanumeric() {
                k += 1;
            }
            if k == st {
                return None;
            }
            match b.get(k) {
                Some(b'-') => k += 1,
                Some(b']') => return Some(k),
                _ => return None,
            }
        }
    }
    // defect model, as the scanner under test works: `next()` reads one *character* (UTF-8 decoded, a stray
    // continuation byte reads as U+FFFD), `advance()` skips one *byte*. The first byte of the value and the byte
    // after a hyphen are skipped unvalidated, the last character before `]` is never validated.
    let b = src.as_bytes();
    let dec = |k: usize| -> Option<(char, usize)> {
        let c = *b.get(k)?;
        if c < 0x80 {
            Some((c as char, k + 1))
        } else if src.is_char_boundary(k) {
            src[k..].chars().next().map(|ch| (ch, k + ch.len_utf8()))
        } else {
            Some(('\u{fffd}', k + 1))
        }
    };
    if i >= b.len() {
        return None;
    }
    let mut k = i + 1;
    loop {
        let (ch, nx) = dec(k)?;
        let following = dec(nx);
        if following.map(|x| x.0) == Some(']') {
            return Some(nx);
        }
        if ch == '-' {
            // `peek()` looks at the character *after* the one that follows the hyphen; that one must be a value
            // character, the one in between is skipped (one byte) unvalidated
            let (_, after_x) = following?;
            if !dec(after_x).is_some_and(|y| y.0.is_ascii_alphanumeric()) {
                return None;
            }
            k = nx + 1;
            continue;
        }
        if !ch.is_ascii_alphanumeric() {
            return None;
        }
        k = nx;
    }
}

/// `[zone]? [k=v]*` up to the end of the text
fn annotations<'a>(src: &'a str, c: &mut Cur<'a>, iso: &mut Iso<'a>, short_form: bool) -> Option<()> {
    let rx = c.rx;
    let mut first = true;
    while c.eat(b'[') {
        let critical = c.eat(b'!');
        let zone = first && decide_zone(src, c.i, rx)?;
        if zone {
            let start = c.i;
            let end = scan_zone(src, start, rx)?;
            let text = src.get(start..end)?;
            c.i = end + 1;
            let signed = text.starts_with('+') || text.starts_with('-');
            let tz = if rx & RX_ZONE_NAME != 0 && !signed {
                iso.labels.push("zone-name");
                Tz::Name(text.to_string())
            } else {
                tz_identifier_text(text, &mut iso.labels)?
            };
            if rx & RX_LOWER_ZONE != 0 && text.chars().next().is_some_and(is_key_lead) && text.chars().all(is_key_char) {
                return None;
            }
            if critical {
                iso.labels.push("zone-critical");
            }
            iso.zone = Some((critical, tz));
        } else {
            let ks = c.i;
            let ke = scan_key(src, ks, rx)?;
            let ve = scan_value(src, ke + 1, rx)?;
            let (k, v) = (src.get(ks..ke)?, src.get(ke + 1..ve)?);
            c.i = ve + 1;
            if critical {
                iso.labels.push("annotation-critical");
            }
            iso.labels.push(if k == "u-ca" { "annotation-calendar" } else { "annotation-other-key" });
            if k == "u-ca" && iso.anns.iter().any(|a| a.1 == "u-ca") {
                iso.labels.push("annotation-calendar-duplicate");
            }
            iso.anns.push((critical, k, v));
        }
        first = false;
    }
    if c.eof() || (rx & RX_SHORT_TRAILING != 0 && short_form && !first) {
        Some(())
    } else {
        None
    }
}

/// Annotation semantics of ParseISODateTime: Ok(calendar text) or Err(()) = RangeError
pub fn calendar_of<'a>(iso: &Iso<'a>) -> Result<Option<&'a str>, ()> {
    let mut cal: Option<&'a str> = None;
    let mut cal_critical = false;
    for (critical, k, v) in &iso.anns {
        if *k == "u-ca" {
            if cal.is_none() {
                cal = Some(v);
                cal_critical = *critical;
            } else if *critical || cal_critical {
                if iso.dup_cal_same_value_ok && cal == Some(*v) {
                    continue; // defect model RX_TIME_DUP_CAL
                }
                return Err(());
            }
        } else if *critical {
            return Err(());
        }
    }
    Ok(cal)
}

// ---------------------------------------------------------------------------------------------
// the four syntactic shapes (whole text)

/// Date [sep Time [Z | Offset(sub)]] [zone] [annotations]
pub fn parse_date_time(s: &str, opts: Opts) -> Option<Iso<'_>> {
    let mut c = Cur::with(s, opts.rx);
    let mut iso = Iso::default();
    let (y, m, d) = date(&mut c, &mut iso.labels)?;
    iso.year = Some(y);
    iso.month = Some(m);
    iso.day = Some(d);
    if let Some(sep) = c.eat_any(b"Tt ") {
        iso.labels.push(match sep {
            b'T' => "sep-T",
            b't' => "sep-t-lower",
            _ => "sep-space",
        });
        iso.time = Some(time(&mut c, &mut iso.labels)?);
        iso.offset = date_time_offset(&mut c, &mut iso.labels).ok()?;
    } else {
        iso.labels.push("date-only");
    }
    annotations(s, &mut c, &mut iso, false)?;
    Some(iso)
}

/// DateSpecMonthDay, whole text, with the IsValidMonthDay early error
fn is_date_spec_month_day(s: &str) -> bool {
    let mut c = Cur::new(s);
    month_day_spec(&mut c, false).is_some() && c.eof()
}
fn month_day_spec(c: &mut Cur, any_day: bool) -> Option<(u8, u8, bool)> {
    let dashes = if c.peek() == Some(b'-') && c.peek_at(1) == Some(b'-') {
        c.i += 2;
        true
    } else {
        false
    };
    let m = date_month(c)?;
    c.eat(b'-');
    if any_day {
        let d = c.digits(2)? as u8; // defect model RX_MD_DAY
        return Some((m, d, dashes));
    }
    let d = date_day(c)?;
    if d > dim(1972, m) {
        return None;
    }
    Some((m, d, dashes))
}
/// DateSpecYearMonth, whole text
fn is_date_spec_year_month(s: &str) -> bool {
    let mut c = Cur::new(s);
    let mut l = vec![];
    if date_year(&mut c, &mut l).is_none() {
        return false;
    }
    c.eat(b'-');
    date_month(&mut c).is_some() && c.eof()
}

/// [T] Time [Offset(sub)] [zone] [annotations]; no UTC designator in this shape
pub fn parse_time<'a>(s: &'a str, opts: Opts) -> Option<Iso<'a>> {
    let mut c = Cur::with(s, opts.rx);
    let mut iso = Iso::default();
    let designator = c.eat_any(b"Tt").is_some();
    let start = c.i;
    iso.time = Some(time(&mut c, &mut iso.labels)?);
    iso.offset = match c.peek() {
        Some(b'+') | Some(b'-') => Some(Off::Num(num_offset(&mut c, true, &mut iso.labels)?)),
        Some(b'Z') | Some(b'z') if opts.rx & RX_TIME_Z != 0 => {
            c.i += 1;
            Some(Off::Z)
        }
        _ => None,
    };
    iso.dup_cal_same_value_ok = opts.rx & RX_TIME_DUP_CAL != 0;
    if designator {
        iso.labels.push("time-designator");
    } else {
        iso.labels.push("time-no-designator");
        if opts.rx & RX_AMBIGUOUS_TIME == 0 {
            let span = &s[start..c.i];
            if is_date_spec_month_day(span) || is_date_spec_year_month(span) {
                return None;
            }
        }
    }
    annotations(s, &mut c, &mut iso, false)?;
    Some(iso)
}

/// DateYear -? MM [zone] [annotations]
pub fn parse_year_month(s: &str, opts: Opts) -> Option<Iso<'_>> {
    let mut c = Cur::with(s, opts.rx);
    let mut iso = Iso::default();
    iso.year = Some(date_year(&mut c, &mut iso.labels)?);
    let ext = c.eat(b'-');
    iso.month = Some(date_month(&mut c)?);
    iso.labels.push(if ext { "short-year-month-extended" } else { "short-year-month-basic" });
    annotations(s, &mut c, &mut iso, true)?;
    Some(iso)
}

/// --? MM -? DD [zone] [annotations]
pub fn parse_month_day(s: &str, opts: Opts) -> Option<Iso<'_>> {
    let mut c = Cur::with(s, opts.rx);
    let mut iso = Iso::default();
    let (m, d, dashes) = month_day_spec(&mut c, opts.rx & RX_MD_DAY != 0)?;
    iso.month = Some(m);
    iso.day = Some(d);
    iso.labels.push(if dashes { "short-month-day-dashes" } else { "short-month-day" });
    annotations(s, &mut c, &mut iso, true)?;
    Some(iso)
}

// ---------------------------------------------------------------------------------------------
// calendars

#[derive(Clone, Copy, Debug, PartialEq, Eq)]
pub enum CalId {
    Known(&'static str),
    /// alias / identifier whose support is implementation-defined: not judged
    Doubtful,
    Unknown,
}
/// Calendar identifiers the crate documents as supported and that are CLDR calendar types.
pub const KNOWN_CALENDARS: [&str; 17] = [
    "iso8601",
    "buddhist",
    "chinese",
    "coptic",
    "dangi",
    "ethioaa",
    "ethiopic",
    "gregory",
    "hebrew",
    "indian",
    "islamic",
    "islamic-civil",
    "islamic-tbla",
    "islamic-umalqura",
    "japanese",
    "persian",
    "roc",
];
/// aliases and identifiers whose availability is implementation-defined
pub const DOUBTFUL_CALENDARS: [&str; 6] = ["iso", "islamicc", "japanext", "islamic-rgsa", "ethiopic-amete-alem", "gregorian"];

pub fn canon_calendar(text: &str) -> CalId {
    let l = text.to_ascii_lowercase();
    if let Some(k) = KNOWN_CALENDARS.iter().find(|k| **k == l) {
        return CalId::Known(k);
    }
    if DOUBTFUL_CALENDARS.contains(&l.as_str()) {
        return CalId::Doubtful;
    }
    CalId::Unknown
}

pub const UNJ_U2212: &str = "unjudged:u2212-minus-sign";
pub const UNJ_CAL_ALIAS: &str = "unjudged:calendar-alias-or-impl-defined-id";
pub const UNJ_FULL_NONISO: &str = "unjudged:year-month/month-day from full date with non-ISO calendar";
pub const UNJ_SHORT_NONISO_TZCAL: &str = "unjudged:short year-month/month-day form with non-ISO calendar in a time-zone/calendar string";
pub const UNJ_SUBMIN_ZERO: &str = "unjudged:sub-minute offset text with zero seconds";
pub const UNJ_BARE_Z: &str = "unjudged:bare Z as time-zone identifier";
pub const UNJ_MONTHCODE_NUM: &str = "unjudged:month code number outside 01..13";
pub const UNJ_ZONED_EDGE: &str = "unjudged:zoned date-time within one day of the limits";
pub const UNJ_ZONE_UNKNOWN: &str = "unjudged:zoned string naming a zone the provider does not serve";

fn has_u2212(s: &str) -> bool {
    s.contains('\u{2212}')
}

/// resolves the calendar annotation of `iso` for a type that constructs a calendar
fn resolve_calendar(iso: &Iso) -> Result<Result<&'static str, &'static str>, ()> {
    match calendar_of(iso)? {
        None => Ok(Ok("iso8601")),
        Some(text) => match canon_calendar(text) {
            CalId::Known(k) => Ok(Ok(k)),
            CalId::Doubtful => Ok(Err(UNJ_CAL_ALIAS)),
            CalId::Unknown => Err(()),
        },
    }
}

macro_rules! cal_or_return {
    ($iso:expr, $labels:expr) => {
        match resolve_calendar(&$iso) {
            Err(()) => return Ref { verdict: Verdict::Reject, labels: $labels },
            Ok(Err(u)) => return Ref { verdict: Verdict::Unjudged(u), labels: $labels },
            Ok(Ok(k)) => k,
        }
    };
}

// ---------------------------------------------------------------------------------------------
// judges per parser

pub fn plain_date(s: &str, opts: Opts) -> Ref {
    if has_u2212(s) {
        return Ref::unjudged(UNJ_U2212);
    }
    let Some(iso) = parse_date_time(s, opts) else { return Ref::reject() };
    let labels = iso.labels.clone();
    if iso.offset == Some(Off::Z) {
        return Ref { verdict: Verdict::Reject, labels };
    }
    let cal = cal_or_return!(iso, labels);
    let (y, m, d) = (iso.year.unwrap(), iso.month.unwrap(), iso.day.unwrap());
    if !date_in_range(to_days(y, m, d)) {
        return Ref { verdict: Verdict::Reject, labels };
    }
    Ref { verdict: Verdict::Accept(Value::Date { y, m, d, cal: cal.into() }), labels }
}

pub fn plain_date_time(s: &str, opts: Opts) -> Ref {
    if has_u2212(s) {
        return Ref::unjudged(UNJ_U2212);
    }
    let Some(iso) = parse_date_time(s, opts) else { return Ref::reject() };
    let labels = iso.labels.clone();
    if iso.offset == Some(Off::Z) {
        return Ref { verdict: Verdict::Reject, labels };
    }
    let cal = cal_or_return!(iso, labels);
    let (y, m, d) = (iso.year.unwrap(), iso.month.unwrap(), iso.day.unwrap());
    let ns = iso.time.map(|t| t.ns()).unwrap_or(0);
    if !datetime_in_range(to_days(y, m, d), ns) {
        return Ref { verdict: Verdict::Reject, labels };
    }
    Ref { verdict: Verdict::Accept(Value::DateTime { y, m, d, ns, cal: cal.into() }), labels }
}

pub fn plain_time(s: &str, opts: Opts) -> Ref {
    if has_u2212(s) {
        return Ref::unjudged(UNJ_U2212);
    }
    // AnnotatedTime, else AnnotatedDateTime[~Zoned, +TimeRequired]
    let iso = match parse_time(s, opts) {
        Some(i) => i,
        None => match parse_date_time(s, opts) {
            Some(i) if i.time.is_some() => i,
            _ => return Ref::reject(),
        },
    };
    let labels = iso.labels.clone();
    if iso.offset == Some(Off::Z) || calendar_of(&iso).is_err() {
        return Ref { verdict: Verdict::Reject, labels };
    }
    Ref { verdict: Verdict::Accept(Value::Time { ns: iso.time.unwrap().ns() }), labels }
}

pub fn plain_year_month(s: &str, opts: Opts) -> Ref {
    if has_u2212(s) {
        return Ref::unjudged(UNJ_U2212);
    }
    if let Some(iso) = parse_year_month(s, opts) {
        let labels = iso.labels.clone();
        let Ok(cal) = calendar_of(&iso) else { return Ref { verdict: Verdict::Reject, labels } };
        if let Some(c) = cal.filter(|c| !c.eq_ignore_ascii_case("iso8601")) {
            let v = if canon_calendar(c) == CalId::Doubtful { Verdict::Unjudged(UNJ_CAL_ALIAS) } else { Verdict::Reject };
            return Ref { verdict: v, labels };
        }
        let (y, m) = (iso.year.unwrap(), iso.month.unwrap());
        if !ym_in_range(y, m) {
            return Ref { verdict: Verdict::Reject, labels };
        }
        return Ref { verdict: Verdict::Accept(Value::YearMonth { y, m, ref_day: 1, cal: "iso8601".into() }), labels };
    }
    let Some(iso) = parse_date_time(s, opts) else { return Ref::reject() };
    let mut labels = iso.labels.clone();
    labels.push("year-month-from-full-date");
    if iso.offset == Some(Off::Z) {
        return Ref { verdict: Verdict::Reject, labels };
    }
    let cal = cal_or_return!(iso, labels);
    if cal != "iso8601" {
        return Ref { verdict: Verdict::Unjudged(UNJ_FULL_NONISO), labels };
    }
    let (y, m) = (iso.year.unwrap(), iso.month.unwrap());
    if !ym_in_range(y, m) {
        return Ref { verdict: Verdict::Reject, labels };
    }
    Ref { verdict: Verdict::Accept(Value::YearMonth { y, m, ref_day: 1, cal: "iso8601".into() }), labels }
}

pub fn plain_month_day(s: &str, opts: Opts) -> Ref {
    if has_u2212(s) {
        return Ref::unjudged(UNJ_U2212);
    }
    if let Some(iso) = parse_month_day(s, opts) {
        let labels = iso.labels.clone();
        let Ok(cal) = calendar_of(&iso) else { return Ref { verdict: Verdict::Reject, labels } };
        if let Some(c) = cal.filter(|c| !c.eq_ignore_ascii_case("iso8601")) {
            let v = if canon_calendar(c) == CalId::Doubtful { Verdict::Unjudged(UNJ_CAL_ALIAS) } else { Verdict::Reject };
            return Ref { verdict: v, labels };
        }
        let (m, d) = (iso.month.unwrap(), iso.day.unwrap());
        return Ref { verdict: Verdict::Accept(Value::MonthDay { m, d, ref_year: 1972, cal: "iso8601".into() }), labels };
    }
    let Some(iso) = parse_date_time(s, opts) else { return Ref::reject() };
    let mut labels = iso.labels.clone();
    labels.push("month-day-from-full-date");
    if opts.rx & RX_MD_FULL_REJECT != 0 {
        return Ref { verdict: Verdict::Reject, labels };
    }
    if iso.offset == Some(Off::Z) {
        return Ref { verdict: Verdict::Reject, labels };
    }
    let cal = cal_or_return!(iso, labels);
    if cal != "iso8601" {
        return Ref { verdict: Verdict::Unjudged(UNJ_FULL_NONISO), labels };
    }
    let (m, d) = (iso.month.unwrap(), iso.day.unwrap());
    Ref { verdict: Verdict::Accept(Value::MonthDay { m, d, ref_year: 1972, cal: "iso8601".into() }), labels }
}

pub fn instant(s: &str, opts: Opts) -> Ref {
    if has_u2212(s) {
        return Ref::unjudged(UNJ_U2212);
    }
    let Some(iso) = parse_date_time(s, opts) else { return Ref::reject() };
    let labels = iso.labels.clone();
    let (Some(t), Some(off)) = (iso.time, iso.offset) else { return Ref { verdict: Verdict::Reject, labels } };
    if calendar_of(&iso).is_err() {
        return Ref { verdict: Verdict::Reject, labels };
    }
    let off_ns = match off {
        Off::Z => 0,
        Off::Num(o) => o.ns(),
    };
    let local = to_days(iso.year.unwrap(), iso.month.unwrap(), iso.day.unwrap()) as i128 * NS_PER_DAY + t.ns();
    let ns = local - off_ns;
    if !instant_in_range(ns) {
        return Ref { verdict: Verdict::Reject, labels };
    }
    Ref { verdict: Verdict::Accept(Value::Instant(ns)), labels }
}

/// `zone_offset_s(name)`: offset in seconds of a named zone the provider serves (all served zones
/// have a constant offset), None if the provider does not know the name.
pub fn zoned(s: &str, zone_offset_s: &dyn Fn(&str) -> Option<i64>, opts: Opts) -> Ref {
    if has_u2212(s) {
        return Ref::unjudged(UNJ_U2212);
    }
    let Some(iso) = parse_date_time(s, opts) else { return Ref::reject() };
    zoned_from_iso(&iso, zone_offset_s, opts, false)
}

/// the same grammar read with offset option "use": the instant is the local date-time minus the *written*
/// offset (or UTC for `Z`), whatever the zone's own offset is - the value the grammar assigns to the offset
pub fn zoned_use(s: &str, zone_offset_s: &dyn Fn(&str) -> Option<i64>, opts: Opts) -> Ref {
    if has_u2212(s) {
        return Ref::unjudged(UNJ_U2212);
    }
    let Some(iso) = parse_date_time(s, opts) else { return Ref::reject() };
    zoned_from_iso(&iso, zone_offset_s, opts, true)
}

fn zoned_from_iso(iso: &Iso, zone_offset_s: &dyn Fn(&str) -> Option<i64>, opts: Opts, use_offset: bool) -> Ref {
    let labels = iso.labels.clone();
    let Some((_, tz)) = iso.zone.clone() else { return Ref { verdict: Verdict::Reject, labels } };
    let cal = cal_or_return!(iso, labels);
    let zone_s: i64 = match &tz {
        Tz::Offset(m) => *m as i64 * 60,
        Tz::Name(n) => match zone_offset_s(n) {
            Some(o) => o,
            // whether an unserved name is rejected, and when, is zone resolution (C13), not grammar
            None => return Ref { verdict: Verdict::Unjudged(UNJ_ZONE_UNKNOWN), labels },
        },
    };
    let day = to_days(iso.year.unwrap(), iso.month.unwrap(), iso.day.unwrap());
    // limits: far outside -> reject; within one day of either end -> not judged here (C13/C02)
    if day < MIN_DAY - 1 || day > MAX_DAY + 1 {
        return Ref { verdict: Verdict::Reject, labels };
    }
    if day <= MIN_DAY + 1 || day >= MAX_DAY - 1 {
        return Ref { verdict: Verdict::Unjudged(UNJ_ZONED_EDGE), labels };
    }
    let local = day as i128 * NS_PER_DAY + iso.time.map(|t| t.ns()).unwrap_or(0);
    let ns = match iso.offset {
        None => Some(local - zone_s as i128 * 1_000_000_000),
        Some(Off::Z) => None,
        Some(Off::Num(o)) => {
            // offset option "reject": the written offset must be the zone's offset (all served zones
            // have whole-minute constant offsets, so minute matching and exact matching coincide)
            let written = if opts.rx & RX_ZONED_OFFSET_MINUTES != 0 {
                // defect model: hours + minutes + (minutes again as seconds) + fraction
                let v = (o.h as i128 * 3600 + o.mi as i128 * 60 + o.mi as i128) * 1_000_000_000 + o.frac_ns as i128;
                if o.neg {
                    -v
                } else {
                    v
                }
            } else {
                o.ns()
            };
            if use_offset {
                let v = local - written;
                if !instant_in_range(v) {
                    return Ref { verdict: Verdict::Reject, labels };
                }
                Some(v)
            } else {
                if written != zone_s as i128 * 1_000_000_000 {
                    return Ref { verdict: Verdict::Reject, labels };
                }
                None
            }
        }
    };
    Ref { verdict: Verdict::Accept(Value::Zoned { ns, tz, cal: cal.into() }), labels }
}

/// relativeTo string: zoned when a zone annotation is present, else a plain date (no `Z`)
pub fn relative_to(s: &str, zone_offset_s: &dyn Fn(&str) -> Option<i64>, opts: Opts) -> Ref {
    if has_u2212(s) {
        return Ref::unjudged(UNJ_U2212);
    }
    let Some(iso) = parse_date_time(s, opts) else { return Ref::reject() };
    if iso.zone.is_some() {
        if opts.rx & RX_RELTO_Z != 0 && iso.offset == Some(Off::Z) {
            return Ref { verdict: Verdict::Reject, labels: iso.labels.clone() };
        }
        let mut r = zoned_from_iso(&iso, zone_offset_s, opts, false);
        r.labels.push("relative-to-zoned");
        return r;
    }
    let mut labels = iso.labels.clone();
    labels.push("relative-to-plain");
    if iso.offset == Some(Off::Z) {
        return Ref { verdict: Verdict::Reject, labels };
    }
    let cal = cal_or_return!(iso, labels);
    let (y, m, d) = (iso.year.unwrap(), iso.month.unwrap(), iso.day.unwrap());
    if !date_in_range(to_days(y, m, d)) {
        return Ref { verdict: Verdict::Reject, labels };
    }
    Ref { verdict: Verdict::Accept(Value::Date { y, m, d, cal: cal.into() }), labels }
}

/// [Sign] P [nY][nM][nW][nD] [T [n[f]H][n[f]M][n[f]S]]
pub fn duration(s: &str, opts: Opts) -> Ref {
    if has_u2212(s) {
        return Ref::unjudged(UNJ_U2212);
    }
    let mut c = Cur::with(s, opts.rx);
    let mut labels: Vec<&'static str> = vec![];
    let neg = match c.eat_any(b"+-") {
        Some(b'-') => {
            labels.push("duration-negative");
            true
        }
        Some(_) => {
            labels.push("duration-plus-sign");
            false
        }
        None => false,
    };
    if c.eat_any(b"Pp").is_none() {
        return Ref::reject();
    }
    let mut f = [0i128; 10];
    let mut last: i32 = -1;
    let mut in_time = false;
    let mut time_parts = 0;
    let mut parts = 0;
    let mut frac_seen = false;
    while !c.eof() {
        if !in_time && matches!(c.peek(), Some(b'T') | Some(b't')) {
            c.i += 1;
            in_time = true;
            last = 3;
            continue;
        }
        if frac_seen {
            return Ref::reject(); // a fraction is only allowed on the last component
        }
        let Some(v) = c.number() else { return Ref::reject() };
        let frac = match c.fraction(&mut labels) {
            Ok(x) => x,
            Err(()) => return Ref::reject(),
        };
        let Some(des) = c.peek() else { return Ref::reject() };
        c.i += 1;
        let idx: i32 = match (in_time, des.to_ascii_uppercase()) {
            (false, b'Y') => 0,
            (false, b'M') => 1,
            (false, b'W') => 2,
            (false, b'D') => 3,
            (true, b'H') => 4,
            (true, b'M') => 5,
            (true, b'S') => 6,
            _ => return Ref::reject(),
        };
        if des.is_ascii_lowercase() {
            labels.push("duration-lowercase-designator");
        }
        if idx < last || (idx == last && opts.rx & RX_DUR_REPEAT == 0) {
            return Ref::reject(); // fixed order, each designator once
        }
        last = idx;
        parts += 1;
        if in_time {
            time_parts += 1;
        }
        f[idx as usize] = v;
        if let Some(fr) = frac {
            if idx < 4 {
                return Ref::reject();
            }
            frac_seen = true;
            // fr = fraction in 1e-9 units of the component
            let sub_ns: i128 = match idx {
                4 => {
                    labels.push("duration-fractional-hours");
                    fr as i128 * 3600
                }
                5 => {
                    labels.push("duration-fractional-minutes");
                    fr as i128 * 60
                }
                _ => {
                    labels.push("duration-fractional-seconds");
                    fr as i128
                }
            };
            // distribute over the smaller units (those are necessarily absent in the text)
            let mut rest = sub_ns;
            if idx == 4 {
                f[5] = rest / 60_000_000_000;
                rest %= 60_000_000_000;
            }
            if idx <= 5 {
                f[6] = rest / 1_000_000_000;
                rest %= 1_000_000_000;
            }
            f[7] = rest / 1_000_000;
            rest %= 1_000_000;
            f[8] = rest / 1_000;
            f[9] = rest % 1_000;
        }
    }
    if (parts == 0 && !(opts.rx & RX_DUR_EMPTY != 0 && !in_time)) || (in_time && time_parts == 0) {
        return Ref { verdict: Verdict::Reject, labels };
    }
    labels.push(if !in_time {
        "duration-date-only"
    } else if parts > time_parts {
        "duration-date-and-time"
    } else {
        "duration-time-only"
    });
    if neg {
        for x in f.iter_mut() {
            *x = -*x;
        }
    }
    if !(Dur { f }).valid() {
        labels.push("duration-out-of-range");
        return Ref { verdict: Verdict::Reject, labels };
    }
    Ref { verdict: Verdict::Accept(Value::Duration(f)), labels }
}

/// the crate's `UtcOffset` text: minute-precision offset
pub fn utc_offset(s: &str, _opts: Opts) -> Ref {
    if has_u2212(s) {
        return Ref::unjudged(UNJ_U2212);
    }
    let mut c = Cur::new(s);
    let mut labels = vec![];
    let Some(o) = num_offset(&mut c, true, &mut labels) else { return Ref::reject() };
    if !c.eof() {
        return Ref::reject();
    }
    if o.has_seconds {
        if o.sub_minute_nonzero() {
            return Ref { verdict: Verdict::Reject, labels };
        }
        return Ref { verdict: Verdict::Unjudged(UNJ_SUBMIN_ZERO), labels };
    }
    Ref { verdict: Verdict::Accept(Value::Offset(o.minutes())), labels }
}

/// the minute-precision prefix `Sign HH [:] [MM]` of an offset-like text and the rest (defect model helper)
pub fn offset_minute_prefix(s: &str) -> Option<(i32, bool, bool, &str)> {
    let mut c = Cur::new(s);
    let sign = c.eat_any(b"+-")?;
    let h = c.digits(2)?;
    if h > 23 {
        return None;
    }
    let colon = c.eat(b':');
    let save = c.i;
    let (mi, has_min) = match c.digits(2) {
        Some(m) if m <= 59 => (m, true),
        _ => {
            c.i = save;
            (0, false)
        }
    };
    let v = (h * 60 + mi) as i32;
    Some((if sign == b'-' { -v } else { v }, colon, has_min, &s[c.i..]))
}

pub fn tz_identifier(s: &str, _opts: Opts) -> Ref {
    if has_u2212(s) {
        return Ref::unjudged(UNJ_U2212);
    }
    if s == "Z" {
        return Ref::unjudged(UNJ_BARE_Z);
    }
    if s.starts_with('+') || s.starts_with('-') {
        let mut c = Cur::new(s);
        let mut labels = vec!["tzid-offset"];
        let Some(o) = num_offset(&mut c, true, &mut labels) else { return Ref::reject() };
        if !c.eof() {
            return Ref::reject();
        }
        if o.has_seconds {
            if o.sub_minute_nonzero() {
                return Ref { verdict: Verdict::Reject, labels };
            }
            return Ref { verdict: Verdict::Unjudged(UNJ_SUBMIN_ZERO), labels };
        }
        return Ref { verdict: Verdict::Accept(Value::TimeZone(Tz::Offset(o.minutes()))), labels };
    }
    if is_iana_name(s) {
        return Ref { verdict: Verdict::Accept(Value::TimeZone(Tz::Name(s.to_string()))), labels: vec!["tzid-name"] };
    }
    Ref::reject()
}

/// first ISO goal that matches, in the order of ParseTemporalTimeZoneString / ParseTemporalCalendarString:
/// date-time (zoned, plain, instant: `Z` allowed), time, month-day, year-month.
/// Returns (parse, is_short_form)
fn any_iso_shape<'a>(s: &'a str, opts: Opts) -> Option<(Iso<'a>, bool)> {
    if let Some(i) = parse_date_time(s, opts) {
        return Some((i, false));
    }
    if let Some(i) = parse_time(s, opts) {
        return Some((i, false));
    }
    if let Some(i) = parse_month_day(s, opts) {
        return Some((i, true));
    }
    if let Some(i) = parse_year_month(s, opts) {
        return Some((i, true));
    }
    None
}

pub fn tz_string(s: &str, opts: Opts) -> Ref {
    if has_u2212(s) {
        return Ref::unjudged(UNJ_U2212);
    }
    // 1. a bare identifier
    match tz_identifier(s, opts) {
        Ref { verdict: Verdict::Reject, .. } => {}
        r => {
            // offset-like text that is not an identifier cannot be any ISO shape either
            return r;
        }
    }
    let Some((iso, short)) = any_iso_shape(s, opts) else { return Ref::reject() };
    let mut labels = iso.labels.clone();
    labels.push("tz-from-iso-string");
    let Ok(cal) = calendar_of(&iso) else { return Ref { verdict: Verdict::Reject, labels } };
    if short && cal.is_some_and(|c| !c.eq_ignore_ascii_case("iso8601")) {
        return Ref { verdict: Verdict::Unjudged(UNJ_SHORT_NONISO_TZCAL), labels };
    }
    if let Some((_, tz)) = iso.zone {
        return Ref { verdict: Verdict::Accept(Value::TimeZone(tz)), labels };
    }
    match iso.offset {
        Some(Off::Z) => Ref { verdict: Verdict::Accept(Value::TimeZone(Tz::Name("UTC".into()))), labels },
        Some(Off::Num(o)) => {
            if o.has_seconds && opts.rx & RX_SUBMIN_TRUNC == 0 {
                if o.sub_minute_nonzero() {
                    return Ref { verdict: Verdict::Reject, labels };
                }
                return Ref { verdict: Verdict::Unjudged(UNJ_SUBMIN_ZERO), labels };
            }
            Ref { verdict: Verdict::Accept(Value::TimeZone(Tz::Offset(o.minutes()))), labels }
        }
        None => Ref { verdict: Verdict::Reject, labels },
    }
}

pub fn calendar_string(s: &str, opts: Opts) -> Ref {
    if has_u2212(s) {
        return Ref::unjudged(UNJ_U2212);
    }
    let canon = |text: &str, labels: Vec<&'static str>| -> Ref {
        match canon_calendar(text) {
            CalId::Known(k) => Ref { verdict: Verdict::Accept(Value::Calendar(k.into())), labels },
            CalId::Doubtful => Ref { verdict: Verdict::Unjudged(UNJ_CAL_ALIAS), labels },
            CalId::Unknown => Ref { verdict: Verdict::Reject, labels },
        }
    };
    if let Some((iso, short)) = any_iso_shape(s, opts) {
        let mut labels = iso.labels.clone();
        labels.push("calendar-from-iso-string");
        // an ISO string that fails the annotation rules is not a calendar identifier either
        let Ok(cal) = calendar_of(&iso) else { return Ref { verdict: Verdict::Reject, labels } };
        if short && cal.is_some_and(|c| !c.eq_ignore_ascii_case("iso8601")) {
            return Ref { verdict: Verdict::Unjudged(UNJ_SHORT_NONISO_TZCAL), labels };
        }
        return canon(cal.unwrap_or("iso8601"), labels);
    }
    if !is_annotation_value(s) {
        return Ref::reject();
    }
    canon(s, vec!["calendar-bare-identifier"])
}

pub fn month_code(s: &str) -> Ref {
    let b = s.as_bytes();
    let shape = (b.len() == 3 || b.len() == 4)
        && b[0] == b'M'
        && b[1].is_ascii_digit()
        && b[2].is_ascii_digit()
        && (b.len() == 3 || b[3] == b'L');
    if !shape {
        return Ref::reject();
    }
    let n = (b[1] - b'0') * 10 + (b[2] - b'0');
    let labels = vec![if b.len() == 4 { "monthcode-leap" } else { "monthcode-plain" }];
    if !(1..=13).contains(&n) {
        return Ref { verdict: Verdict::Unjudged(UNJ_MONTHCODE_NUM), labels };
    }
    Ref { verdict: Verdict::Accept(Value::MonthCode(s.to_string())), labels }
}

// ---------------------------------------------------------------------------------------------
// self-test: accept/reject examples from the Temporal documentation, test262 string tables and the
// repository's own test tables (read as data).

pub fn self_test() -> Result<u64, String> {
    let utc = |n: &str| if n.eq_ignore_ascii_case("UTC") { Some(0i64) } else { None };
    let mut n = 0u64;
    let o = Opts::default();
    let mut chk = |name: &str, s: &str, got: &Ref, want_accept: bool| -> Result<(), String> {
        n += 1;
        let acc = matches!(got.verdict, Verdict::Accept(_));
        if matches!(got.verdict, Verdict::Unjudged(_)) || acc != want_accept {
            return Err(format!("grammar self-test {name}({s:?}): want accept={want_accept}, got {:?}", got.verdict));
        }
        Ok(())
    };
    for s in ["2020-01-01", "20200101", "+002020-01-01", "2020-01-01T00:00", "2020-01-01 12", "2020-01-01t12:30:45,123456789+01:00[Europe/Paris][u-ca=iso8601]",
        "1976-11-18T15:23:30.1-02:00", "2020-02-29", "-000001-01-01", "+000000-01-01", "2020-01-01[u-ca=gregory][u-ca=iso8601]", "2020-01-01[foo=bar]",
        "19761118T152330.1+0000", "1976-11-18T15:23:60", "2020-01-01T00:00:00+01:00:30.5", "2020-01-01[!u-ca=iso8601]"] {
        chk("PlainDate", s, &plain_date(s, o), true)?;
    }
    for s in ["", "2020-1-01", "2020-13-01", "2021-02-29", "-000000-01-01", "2020-01-01T00:00Z", "2020-01-01T24:00", "2020-01-01T00:60", "2020-01-01T00:00:61",
        "2020-01-01T00:00:00.1234567890", "2020-0101", "202001-01", "2020-01-01T00:00[!foo=bar]", "2020-01-01[u-ca=iso8601][!u-ca=iso8601]",
        "2020-01-01[u-ca=notacal]", "2020-01-01[u-ca=iso8601][UTC]", "2020-01-01T", "2020-01-01T1", "2020-01-01T12:3", "2020-01-01T12:30:", "2020-01-01T00:00+01:0030",
        "2020-01-01T00:00+0100:30", "2020-01-01T00:00[+01:00:00]", "+275760-09-14", "-271821-04-18", "2020-01-01 ", " 2020-01-01", "2020-01-01T00:00:00.",
        "2020-01-01[UTC", "2020-01-01[]", "2020-01-01[U-CA=iso8601]", "2020-01-01T00:00+24:00", "2020-01-01T00:00+01:60"] {
        chk("PlainDate", s, &plain_date(s, o), false)?;
    }
    chk("PlainDateTime", "-271821-04-19T00:00", &plain_date_time("-271821-04-19T00:00", o), false)?;
    chk("PlainDateTime", "-271821-04-19T00:00:00.000000001", &plain_date_time("-271821-04-19T00:00:00.000000001", o), true)?;
    chk("PlainDateTime", "+275760-09-13T23:59:59.999999999", &plain_date_time("+275760-09-13T23:59:59.999999999", o), true)?;
    for s in ["12", "12:30", "1331", "T1230", "12:30:45.5", "123045,5", "t12", "2020-01-01T12:00", "12:30+01:00", "12:30[UTC][u-ca=foo]", "0230", "1314", "13-14", "1232",
        "0631", "0000", "00-00", "2021-13", "202113", "000000", "T12-14", "T2021-12"] {
        chk("PlainTime", s, &plain_time(s, o), true)?;
    }
    for s in ["2021-12", "202112", "12-14", "1214", "1229", "1130", "--12-14", "0229", "12:30Z", "2020-01-01", "2020-01-01T12:00Z", "24", "12:60", "T", "1:30"] {
        chk("PlainTime", s, &plain_time(s, o), false)?;
    }
    for s in ["2020-01", "202001", "+002020-01", "2020-01[u-ca=iso8601]", "2020-01-15", "2020-01-15T12:00[UTC]", "-271821-04", "+275760-09", "2020-01[UTC]"] {
        chk("PlainYearMonth", s, &plain_year_month(s, o), true)?;
    }
    for s in ["2020-13", "2020-01[u-ca=gregory]", "-271821-03", "+275760-10", "2020-01-15T12:00Z", "2020-01Z", "2020-1", "20201"] {
        chk("PlainYearMonth", s, &plain_year_month(s, o), false)?;
    }
    for s in ["12-14", "1214", "--12-14", "--1214", "02-29", "2020-12-14", "1976-11-18T15:23:30", "12-14[u-ca=iso8601]"] {
        chk("PlainMonthDay", s, &plain_month_day(s, o), true)?;
    }
    for s in ["02-30", "13-01", "-12-14", "12-14[u-ca=gregory]", "2021-02-29", "1214Z", "--12-14T12"] {
        chk("PlainMonthDay", s, &plain_month_day(s, o), false)?;
    }
    for s in ["1970-01-01T00:00Z", "1970-01-01T00:00z", "1970-01-01T00:00+00:00", "1970-01-01T00:00:00.5-23:59:59.999999999", "19700101T00Z", "+275760-09-13T00:00Z",
        "-271821-04-19T23:00-01:00", "-271821-04-20T00:00Z", "1970-01-01T00:00Z[Whatever/Zone][u-ca=anything]", "1976-11-18T15:23:30.123456789+01:00"] {
        chk("Instant", s, &instant(s, o), true)?;
    }
    for s in ["1970-01-01", "1970-01-01T00:00", "1970-01-01T00:00[UTC]", "+275760-09-13T00:00:00.000000001Z", "-271821-04-19T23:59:59.999999999Z", "1970-01-01T00:00ZZ",
        "1970-01-01T00:00+1", "+275760-09-13T01:00+00:59"] {
        chk("Instant", s, &instant(s, o), false)?;
    }
    if instant("1970-01-01T00:00:00.000000001-00:00:01", o).accepted() != Some(&Value::Instant(1_000_000_001)) {
        return Err("instant value".into());
    }
    for s in ["P1Y", "p1y", "-P1D", "+P1D", "PT1H", "P1Y2M3W4DT5H6M7.5S", "PT0.5H", "PT1H0,5M", "PT1.123456789S", "P0D", "PT0S", "P4294967295Y", "PT9007199254740991S", "P1YT1S"] {
        chk("Duration", s, &duration(s, o), true)?;
    }
    for s in ["", "P", "PT", "P1", "1Y", "P1YT", "P1Y1Y", "P1M1Y", "P1DT1S1H", "PT1.5H30M", "PT1.1234567890S", "P1.5Y", "P1.5D", "PT1.S", "P4294967296Y", "PT9007199254740992S",
        "P-1D", "P1D ", "PT1H1H", "P1S", "PT1D", "PTT1S", "P1YT1H T1S"] {
        chk("Duration", s, &duration(s, o), false)?;
    }
    if duration("PT1.5H", o).accepted() != Some(&Value::Duration([0, 0, 0, 0, 1, 30, 0, 0, 0, 0])) {
        return Err("fractional hours value".into());
    }
    if duration("-PT0.000000001H", o).accepted() != Some(&Value::Duration([0, 0, 0, 0, 0, 0, 0, 0, -3, -600])) {
        return Err("fractional hours ns value".into());
    }
    if duration("PT2.000000001M", o).accepted() != Some(&Value::Duration([0, 0, 0, 0, 0, 2, 0, 0, 0, 60])) {
        return Err("fractional minutes value".into());
    }
    for s in ["+01", "-01:30", "+0130", "-00:00", "+23:59"] {
        chk("UtcOffset", s, &utc_offset(s, o), true)?;
    }
    for s in ["", "01:00", "+1", "+24:00", "+01:60", "+01:00:30", "+010030", "+01:", "+01:0", "+01:00:", "+0100.5", "Z", "+01:00[UTC]"] {
        chk("UtcOffset", s, &utc_offset(s, o), false)?;
    }
    for s in ["UTC", "America/New_York", "Etc/GMT+5", "+05:30", "-0800", "_a/.b", "z"] {
        chk("TimeZone.identifier", s, &tz_identifier(s, o), true)?;
    }
    for s in ["", "/UTC", "UTC/", "A//B", "1UTC", "+05:30:15", "U TC", "UTC]", "-a", "2020-01-01T00:00Z"] {
        chk("TimeZone.identifier", s, &tz_identifier(s, o), false)?;
    }
    for s in ["UTC", "2020-01-01T00:00Z", "2020-01-01T00:00+01:00", "2020-01-01[Europe/Paris]", "2020-01-01T00:00Z[+02:00]", "12:00+05[UTC]", "2020-01[UTC]", "12-14[!UTC]", "T12-14"] {
        chk("TimeZone.str", s, &tz_string(s, o), true)?;
    }
    for s in ["2020-01-01", "2020-01-01T00:00", "12:00Z", "12-14", "2021-12", "2020-01-01T00:00+01:00:01", "2020-01-01T00:00Z[!foo=bar]"] {
        chk("TimeZone.str", s, &tz_string(s, o), false)?;
    }
    for s in ["iso8601", "ISO8601", "gregory", "Hebrew", "2020-01-01", "2020-01-01[u-ca=japanese]", "12:00", "2020-01", "12-14", "2020-01-01T00:00Z", "1970-01-01T00:00[UTC][u-ca=roc]"] {
        chk("Calendar", s, &calendar_string(s, o), true)?;
    }
    for s in ["", "notacalendar", "2020-01-01[u-ca=notacal]", "iso 8601", "2020-01-01[!u-ca=gregory][u-ca=gregory]", "greg_ory"] {
        chk("Calendar", s, &calendar_string(s, o), false)?;
    }
    for s in ["M01", "M13", "M05L", "M12L"] {
        chk("MonthCode", s, &month_code(s), true)?;
    }
    for s in ["", "M1", "m01", "M01l", "M01LL", "X01", "M0A", "M001"] {
        chk("MonthCode", s, &month_code(s), false)?;
    }
    for s in ["2020-01-01T00:00[UTC]", "2020-01-01[UTC]", "2020-01-01T00:00Z[UTC]", "2020-01-01T00:00+00:00[UTC]", "2020-01-01T00:00+05:30[+05:30]", "2020-01-01T00:00[!utc][u-ca=gregory]"] {
        chk("ZonedDateTime", s, &zoned(s, &utc, o), true)?;
    }
    for s in ["2020-01-01T00:00", "2020-01-01T00:00Z", "2020-01-01T00:00+01:00[UTC]", "2020-01-01T00:00[+05:30:00]", "2020-01-01T00:00[UTC][u-ca=notacal]"] {
        chk("ZonedDateTime", s, &zoned(s, &utc, o), false)?;
    }
    if zoned("1970-01-02T00:00[+01:00]", &utc, o).accepted().map(|v| matches!(v, Value::Zoned { ns: Some(82_800_000_000_000), .. })) != Some(true) {
        return Err("zoned value".into());
    }
    chk("RelativeTo", "2020-01-01", &relative_to("2020-01-01", &utc, o), true)?;
    chk("RelativeTo", "2020-01-01T00:00Z", &relative_to("2020-01-01T00:00Z", &utc, o), false)?;
    chk("RelativeTo", "2020-01-01T00:00Z[UTC]", &relative_to("2020-01-01T00:00Z[UTC]", &utc, o), true)?;
    Ok(n)
}
