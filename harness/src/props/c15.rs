//! C15 - the bundled FsTzdbProvider reports what the TZif data say, whatever the history.
//!
//! Oracle: `tzif` (own TZif reader + POSIX-TZ footer evaluator, brute-force wall -> instants).
//! Code under test: `temporal_rs::tzdb::FsTzdbProvider` through the `TimeZoneProvider` trait.
//! Sub-checks: `offset` (instant -> offset), `wall` (local date-time -> set of instants, directly and
//! through the core with a recording wrapper), `ident` (check_identifier == Zone/Link names of
//! tzdata.zi, ASCII case-insensitive), `history` (one provider over a sequence == fresh provider per query),
//! `start-of-day` (every date whose midnight a listed transition skipped starts at that transition; all zones).
//! `VERIF_C15_PYCHECK=1` additionally cross-checks the oracle against CPython `zoneinfo` on every
//! whole-second point of the run (development aid, reported as a note, never part of the verdict).

pub mod model;
pub mod tzif;

use crate::chk;
use crate::conv::err_str;
use crate::refm::civil::{from_days, to_days};
use crate::refm::tz::S;
use crate::run::*;
use proptest::prelude::*;
use serde::{Deserialize, Serialize};
use serde_json::{json, Value};
use std::cell::RefCell;
use std::collections::{BTreeMap, BTreeSet};
use std::sync::{Arc, OnceLock};
use temporal_rs::iso::{IsoDate, IsoDateTime, IsoTime};
use temporal_rs::options::{ArithmeticOverflow, Disambiguation};
use temporal_rs::provider::{TimeZoneOffset, TimeZoneProvider, TransitionDirection};
use temporal_rs::time::EpochNanoseconds;
use temporal_rs::tzdb::FsTzdbProvider;
use temporal_rs::{PlainDate, PlainDateTime, TemporalResult, TimeZone};
use tzif::Oracle;

pub const ZONEDIR: &str = "/usr/share/zoneinfo";

/// first second of year 1 and last second of year 9999 (the property's instant domain)
pub fn t_min() -> i64 {
    to_days(1, 1, 1) * 86400
}
pub fn t_max() -> i64 {
    to_days(9999, 12, 31) * 86400 + 86399
}

// ---------------------------------------------------------------------------------------------
// data: names and oracles (read once)

pub struct Db {
    pub version: String,
    /// Zone names then Link names of tzdata.zi
    pub names: Vec<String>,
    pub lower: BTreeSet<String>,
    pub oracles: BTreeMap<String, Arc<Oracle>>,
    pub problems: Vec<String>,
}

pub fn db() -> &'static Db {
    static DB: OnceLock<Db> = OnceLock::new();
    DB.get_or_init(|| {
        let (version, zones, links) = tzif::tzdata_names(&format!("{ZONEDIR}/tzdata.zi")).expect("tzdata.zi must be readable");
        let mut names: Vec<String> = zones;
        names.extend(links.into_iter().map(|l| l.0));
        let mut problems = vec![];
        let mut oracles = BTreeMap::new();
        for n in &names {
            match Oracle::read(ZONEDIR, n) {
                Ok(o) => {
                    for r in &o.remarks {
                        problems.push(format!("{n}: {r}"));
                    }
                    oracles.insert(n.clone(), Arc::new(o));
                }
                Err(e) => problems.push(e),
            }
        }
        let lower = names.iter().map(|n| n.to_ascii_lowercase()).collect();
        Db { version, names, lower, oracles, problems }
    })
}

pub fn oracle(name: &str) -> Option<Arc<Oracle>> {
    db().oracles.get(name).cloned()
}

// ---------------------------------------------------------------------------------------------
// calling the code under test

/// What a trait call produced, in comparable form.
#[derive(Clone, Debug, PartialEq, Eq, Serialize, Deserialize)]
pub enum Ans<T> {
    Ok(T),
    /// error kind name
    Err(String),
    /// panic location (file:line relative to the crate)
    Panic(String),
}

fn panic_loc(p: &str) -> String {
    // "panic@src/tzdb.rs:219: message" -> "src/tzdb.rs:219"
    // and "/any/where/src/tzdb.rs:219" -> "src/tzdb.rs:219" (the crate may be built from a scratch tree)
    let loc = p.split(": ").next().unwrap_or("panic@?").trim_start_matches("panic@");
    match loc.rfind("/src/") {
        Some(i) => loc[i + 1..].to_string(),
        None => loc.to_string(),
    }
}

fn lift<T, U>(r: Result<TemporalResult<T>, String>, f: impl FnOnce(T) -> U) -> Ans<U> {
    match r {
        Ok(Ok(v)) => Ans::Ok(f(v)),
        Ok(Err(e)) => Ans::Err(crate::conv::kind_name(e.kind()).to_string()),
        Err(p) => Ans::Panic(panic_loc(&p)),
    }
}

pub fn ns_of(s: i64, sub: i32) -> i128 {
    s as i128 * S + sub as i128
}

/// (offset seconds, transition_epoch) as returned by the provider
pub fn impl_offset(p: &impl TimeZoneProvider, zone: &str, t_ns: i128) -> Ans<(i64, Option<i64>)> {
    lift(guard(|| p.get_named_tz_offset_nanoseconds(zone, t_ns)), |o: TimeZoneOffset| (o.offset, o.transition_epoch))
}

/// IsoDateTime for a point of the local line, through public API only: `IsoDate`/`IsoDateTime` are
/// `#[non_exhaustive]` (no struct literal outside the crate) but implement `Default` and have public
/// fields; `IsoTime::new` and `IsoDateTime::new` are public validating constructors.
pub fn make_iso(wall_s: i64, sub: i32) -> TemporalResult<IsoDateTime> {
    let day = wall_s.div_euclid(86400);
    let sod = wall_s.rem_euclid(86400);
    let (y, m, d) = from_days(day);
    let mut date = IsoDate::default();
    date.year = y as i32;
    date.month = m;
    date.day = d;
    let time = IsoTime::new(
        (sod / 3600) as u8,
        (sod / 60 % 60) as u8,
        (sod % 60) as u8,
        (sub / 1_000_000) as u16,
        (sub / 1000 % 1000) as u16,
        (sub % 1000) as u16,
        ArithmeticOverflow::Reject,
    )?;
    IsoDateTime::new(date, time)
}

pub fn impl_instants(p: &impl TimeZoneProvider, zone: &str, wall_s: i64, sub: i32) -> Ans<Vec<i128>> {
    let iso = match make_iso(wall_s, sub) {
        Ok(i) => i,
        Err(e) => return Ans::Err(format!("make_iso:{}", crate::conv::kind_name(e.kind()))),
    };
    lift(guard(|| p.get_named_tz_epoch_nanoseconds(zone, iso)), |v: Vec<EpochNanoseconds>| {
        let mut v: Vec<i128> = v.into_iter().map(|e| e.as_i128()).collect();
        v.sort();
        v.dedup();
        v
    })
}

thread_local! {
    /// one provider per (worker thread, zone): reading a zone file through the crate costs ~1 ms
    /// (unbuffered byte reads), so `offset` and `wall` reuse the provider while the zone stays the
    /// same. That earlier queries do not matter is what the `history` sub-check decides.
    static PROVIDER: RefCell<Option<(String, FsTzdbProvider)>> = const { RefCell::new(None) };
}
pub fn with_provider<T>(zone: &str, f: impl FnOnce(&FsTzdbProvider) -> T) -> T {
    PROVIDER.with(|cell| {
        let mut slot = cell.borrow_mut();
        if slot.as_ref().map(|x| x.0.as_str()) != Some(zone) {
            *slot = Some((zone.to_string(), FsTzdbProvider::default()));
        }
        f(&slot.as_ref().unwrap().1)
    })
}

/// Delegating provider that records what the inner provider was asked and what it answered.
pub struct RecProvider {
    pub inner: FsTzdbProvider,
    pub log: RefCell<Vec<(String, IsoDateTime, Result<Vec<i128>, String>)>>,
}
impl TimeZoneProvider for RecProvider {
    fn check_identifier(&self, identifier: &str) -> bool {
        self.inner.check_identifier(identifier)
    }
    fn get_named_tz_epoch_nanoseconds(&self, identifier: &str, local: IsoDateTime) -> TemporalResult<Vec<EpochNanoseconds>> {
        let r = self.inner.get_named_tz_epoch_nanoseconds(identifier, local);
        let rec = match &r {
            Ok(v) => Ok(v.iter().map(|e| e.as_i128()).collect()),
            Err(e) => Err(crate::conv::kind_name(e.kind()).to_string()),
        };
        self.log.borrow_mut().push((identifier.to_string(), local, rec));
        r
    }
    fn get_named_tz_offset_nanoseconds(&self, identifier: &str, epoch_nanoseconds: i128) -> TemporalResult<TimeZoneOffset> {
        self.inner.get_named_tz_offset_nanoseconds(identifier, epoch_nanoseconds)
    }
    fn get_named_tz_transition(&self, identifier: &str, epoch_nanoseconds: i128, direction: TransitionDirection) -> TemporalResult<Option<EpochNanoseconds>> {
        self.inner.get_named_tz_transition(identifier, epoch_nanoseconds, direction)
    }
}

/// wall -> instants observed through the core: `PlainDateTime::to_zoned_date_time_with_provider`
/// with `Disambiguation::Reject` makes exactly one `get_named_tz_epoch_nanoseconds` call with the
/// date-time unchanged and never probes further. Returns (raw answer, forwarded unchanged?, calls).
pub fn impl_instants_via_core(zone: &str, wall_s: i64, sub: i32) -> (Ans<Vec<i128>>, bool, usize) {
    let day = wall_s.div_euclid(86400);
    let sod = wall_s.rem_euclid(86400);
    let (y, m, d) = from_days(day);
    let pdt = match PlainDateTime::try_new(
        y as i32,
        m,
        d,
        (sod / 3600) as u8,
        (sod / 60 % 60) as u8,
        (sod % 60) as u8,
        (sub / 1_000_000) as u16,
        (sub / 1000 % 1000) as u16,
        (sub % 1000) as u16,
        crate::conv::iso(),
    ) {
        Ok(p) => p,
        Err(e) => return (Ans::Err(format!("try_new:{}", crate::conv::kind_name(e.kind()))), false, 0),
    };
    let rec = RecProvider { inner: FsTzdbProvider::default(), log: RefCell::new(vec![]) };
    let tz = TimeZone::IanaIdentifier(zone.to_string());
    let r = guard(|| pdt.to_zoned_date_time_with_provider(&tz, Disambiguation::Reject, &rec));
    let log = rec.log.borrow();
    let want = make_iso(wall_s, sub).ok();
    let forwarded = log.len() == 1 && log[0].0 == zone && Some(log[0].1) == want;
    let ans = match (&r, log.first()) {
        (Err(p), _) => Ans::Panic(panic_loc(p)),
        (_, Some((_, _, Ok(v)))) => {
            let mut v = v.clone();
            v.sort();
            v.dedup();
            Ans::Ok(v)
        }
        (_, Some((_, _, Err(k)))) => Ans::Err(k.clone()),
        (Ok(Err(e)), None) => Ans::Err(format!("core:{}", crate::conv::kind_name(e.kind()))),
        (Ok(Ok(_)), None) => Ans::Err("core:no-provider-call".into()),
    };
    (ans, forwarded, log.len())
}

// ---------------------------------------------------------------------------------------------
// classification helpers (non-triviality rule)

/// is the transition nearest to `t_s` (listed, or rule-based in the footer region) one of the
/// shapes the heuristics of the code under test do not expect: an offset change between two non-DST
/// types, or "negative DST" (the DST type has the smaller offset)?
fn nearest_transition_is_unusual(o: &Oracle, t_s: i64) -> bool {
    let f = &o.file;
    if f.times.last().is_some_and(|l| t_s > *l) || f.times.is_empty() {
        return o.posix.as_ref().and_then(|p| p.dst.as_ref().map(|d| d.off < p.std_off)).unwrap_or(false);
    }
    let i = f.times.partition_point(|x| *x <= t_s); // first transition after t
    let cand = [i.checked_sub(1), if i < f.times.len() { Some(i) } else { None }];
    let Some(k) = cand.iter().flatten().copied().min_by_key(|k| (f.times[*k] - t_s).abs()) else { return false };
    if k == 0 {
        return false; // LMT -> first standard time is the ordinary first transition
    }
    let (before, after) = (&f.types[f.idx[k - 1]], &f.types[f.idx[k]]);
    if before.utoff == after.utoff {
        return false;
    }
    (!before.isdst && !after.isdst) || (after.isdst && !before.isdst && after.utoff < before.utoff) || (before.isdst && !after.isdst && after.utoff > before.utoff)
}

/// distance in seconds from `t` to the nearest transition (listed or rule-based) of the deciding table
fn near_transition(o: &Oracle, t_s: i64) -> Option<i64> {
    let y = tzif::year_of_second(t_s);
    let w = o.window(y);
    w.trans.iter().map(|e| (e.0 - t_s).abs()).min()
}

fn classes_for_instant(out: Outcome, o: &Oracle, t_s: i64) -> Outcome {
    let mut out = out;
    let mut nt = false;
    match (o.file.times.first(), o.file.times.last()) {
        (Some(f), _) if t_s < *f => {
            out = out.class("before-first-transition");
            nt = true;
        }
        (_, Some(l)) if t_s >= *l => {
            out = out.class("after-last-listed");
            nt = true;
        }
        (None, None) => out = out.class("zone-without-transitions"),
        _ => out = out.class("inside-table"),
    }
    if let Some(d) = near_transition(o, t_s) {
        if d <= 3600 {
            out = out.class("within-1h-of-transition");
            nt = true;
        }
        if d <= 1 {
            out = out.class("at-transition-second+-1");
        }
    }
    if t_s < 0 {
        out = out.class("negative-epoch");
        nt = true;
    }
    if t_s >= 2_145_916_800 {
        out = out.class("year>=2038");
    }
    if nearest_transition_is_unusual(o, t_s) {
        out = out.class("nearest-transition-negative-dst-or-nondst-change");
        nt = true;
    }
    out.nontrivial(nt)
}

// ---------------------------------------------------------------------------------------------
// sub-check: offset

#[derive(Serialize, Deserialize, Debug, Clone)]
pub struct OffsetCase {
    pub zone: String,
    /// epoch second (floor) and nanoseconds within it: t = s * 1e9 + ns
    pub s: i64,
    pub ns: i32,
}
pub struct OffsetSub;
impl SubCheck for OffsetSub {
    type Case = OffsetCase;
    fn name(&self) -> &'static str {
        "offset"
    }
    fn eval(&self, c: &OffsetCase) -> Outcome {
        let Some(o) = oracle(&c.zone) else {
            return Outcome::pass().fail("C15/offset/oracle-cannot-read-zone", "readable", c.zone.clone());
        };
        let t = ns_of(c.s, c.ns);
        let mut out = classes_for_instant(Outcome::pass(), &o, c.s);
        if c.ns != 0 {
            out = out.class("sub-second");
        }
        let want = o.offset_at(t);
        let got = with_provider(&c.zone, |p| impl_offset(p, &c.zone, t));
        let ok = matches!(&got, Ans::Ok((off, _)) if *off == want);
        if !ok {
            let got_off = match &got {
                Ans::Ok((off, _)) => Ans::Ok(*off),
                Ans::Err(e) => Ans::Err(e.clone()),
                Ans::Panic(p) => Ans::Panic(p.clone()),
            };
            let sig = model::sign_offset(&o, t, &got_off);
            out = out.fail(sig, format!("offset {want}"), format!("{got_off:?}"));
        }
        out
    }
}

// ---------------------------------------------------------------------------------------------
// sub-check: start of day on the dates whose midnight a listed transition skipped

#[derive(Serialize, Deserialize, Debug, Clone)]
pub struct SodCase {
    pub zone: String,
    /// the listed transition second whose skipped stretch of local time contains a midnight
    pub t: i64,
    /// days since 1970-01-01 of the date whose midnight is skipped
    pub day: i64,
}
pub struct SodSub;

/// every (zone, listed transition, date) for which the transition's skipped local stretch [t+before, t+after)
/// contains the midnight of the date
pub fn midnight_gap_cases(names: &[String]) -> Vec<SodCase> {
    let mut out = vec![];
    for z in names {
        let Some(o) = oracle(z) else { continue };
        let f = &o.file;
        for (i, &t) in f.times.iter().enumerate() {
            let before = if i == 0 { f.types[0].utoff } else { f.types[f.idx[i - 1]].utoff };
            let after = f.types[f.idx[i]].utoff;
            if after <= before {
                continue;
            }
            let day = (t + before + 86_399).div_euclid(86_400);
            if day * 86_400 < t + after && (-100_000_000..=100_000_000).contains(&day) {
                out.push(SodCase { zone: z.clone(), t, day });
            }
        }
    }
    out
}

impl SubCheck for SodSub {
    type Case = SodCase;
    fn name(&self) -> &'static str {
        "start-of-day"
    }
    fn eval(&self, c: &SodCase) -> Outcome {
        let Some(o) = oracle(&c.zone) else {
            return Outcome::pass().fail("C15/start-of-day/oracle-cannot-read-zone", "readable", c.zone.clone());
        };
        let mut out = classes_for_instant(Outcome::pass(), &o, c.t).nontrivial(true).class("midnight-skipped-by-listed-transition");
        let is_last = o.file.times.last() == Some(&c.t);
        if is_last {
            out = out.class("midnight-skipped-by-the-last-listed-transition");
        }
        // what the data say, read by the oracle: no instant has this wall-clock reading, the offset changes at t
        let midnight = c.day as i128 * 86_400 * S;
        let t_ns = c.t as i128 * S;
        if !o.instants(midnight).is_empty() || o.offset_at(t_ns) == o.offset_at(t_ns - 1) {
            out.unjudged = true;
            return out.class("start-of-day-unjudged:oracle-sees-no-gap-at-this-listing");
        }
        // the start of day builds on the provider's own answer for midnight: when that is not the empty set the data
        // specify, the failure is the wall lookup's (signed as in the `wall` sub-check, listed there)
        let wall = with_provider(&c.zone, |p| impl_instants(p, &c.zone, c.day * 86_400, 0));
        if wall != Ans::Ok(vec![]) {
            let sig = model::sign_wall(&o, c.day * 86_400, 0, &wall);
            return out.fail(sig, "[] (midnight is skipped)", format!("{wall:?}"));
        }
        // the first instant of that local date is the transition itself (every local time from midnight up to the end
        // of the skipped stretch does not exist)
        let (y, m, d) = from_days(c.day);
        let got = with_provider(&c.zone, |p| {
            guard(|| {
                let tz = TimeZone::try_from_identifier_str(&c.zone)?;
                let date = PlainDate::try_new(y as i32, m, d, temporal_rs::Calendar::default())?;
                date.to_zoned_date_time_with_provider(tz, None, p).map(|z| z.epoch_nanoseconds().as_i128())
            })
        });
        match got {
            Ok(Ok(v)) if v == t_ns => out,
            Ok(Ok(v)) => out.fail("C15/start-of-day/midnight-gap/wrong-instant", format!("{t_ns} (the transition)"), format!("{v}")),
            Ok(Err(e)) => out.fail(format!("C15/start-of-day/midnight-gap/{}", crate::conv::kind_name(e.kind())), format!("{t_ns} (the transition)"), err_str(&e)),
            Err(p) => out.fail("C15/start-of-day/midnight-gap/panic", format!("{t_ns} (the transition)"), p),
        }
    }
}

// ---------------------------------------------------------------------------------------------
// sub-check: wall

#[derive(Serialize, Deserialize, Debug, Clone)]
pub struct WallCase {
    pub zone: String,
    /// second on the local line (as if UTC) and nanoseconds within it
    pub s: i64,
    pub ns: i32,
    /// observe through PlainDateTime::to_zoned_date_time_with_provider + recording wrapper
    pub via_core: bool,
}
pub struct WallSub;
impl SubCheck for WallSub {
    type Case = WallCase;
    fn name(&self) -> &'static str {
        "wall"
    }
    fn eval(&self, c: &WallCase) -> Outcome {
        let Some(o) = oracle(&c.zone) else {
            return Outcome::pass().fail("C15/wall/oracle-cannot-read-zone", "readable", c.zone.clone());
        };
        let w = ns_of(c.s, c.ns);
        let want = o.instants(w);
        let mut out = classes_for_instant(Outcome::pass(), &o, c.s);
        out = match want.len() {
            0 => out.class("wall-in-gap").nontrivial(true),
            1 => out.class("wall-unique"),
            _ => out.class("wall-in-overlap").nontrivial(true),
        };
        if c.ns != 0 {
            out = out.class("sub-second");
        }
        let got = if c.via_core {
            out = out.class("via-core");
            let (ans, forwarded, calls) = impl_instants_via_core(&c.zone, c.s, c.ns);
            if !matches!(ans, Ans::Panic(_)) {
                chk!(out, forwarded, "C15/wall/core-did-not-forward-the-date-time-unchanged", "1 call, same zone, same date-time", calls);
            }
            ans
        } else {
            with_provider(&c.zone, |p| impl_instants(p, &c.zone, c.s, c.ns))
        };
        if got != Ans::Ok(want.clone()) && !out.failed() {
            let sig = model::sign_wall(&o, c.s, c.ns, &got);
            out = out.fail(sig, format!("{want:?}"), format!("{got:?}"));
        }
        out
    }
}

// ---------------------------------------------------------------------------------------------
// sub-check: identifiers

#[derive(Serialize, Deserialize, Debug, Clone)]
pub struct IdentCase {
    pub s: String,
}
pub struct IdentSub;
impl SubCheck for IdentSub {
    type Case = IdentCase;
    fn name(&self) -> &'static str {
        "ident"
    }
    fn eval(&self, c: &IdentCase) -> Outcome {
        let d = db();
        let lower = c.s.to_ascii_lowercase();
        let want = d.lower.contains(&lower);
        let mut out = Outcome::pass().class(if want { "name" } else { "not-a-name" });
        let exact = d.names.iter().any(|n| *n == c.s);
        out = out.nontrivial(!exact);
        if want && !exact {
            out = out.class("case-variant");
        }
        if !c.s.is_ascii() {
            out = out.class("non-ascii");
        }
        let got = guard(|| FsTzdbProvider::default().check_identifier(&c.s));
        if lower == "factory" {
            // `Factory` is a Zone line of tzdata.zi (source file `factory`) but a placeholder, not a
            // time zone (ECMA-402 implementations leave it out): whether it is an "IANA name" in the
            // sense of the statement is doubtful -> executed, not judged.
            out.unjudged = true;
            return out.class("unjudged-Factory");
        }
        match got {
            Ok(b) => chk!(out, b == want, if want { "C15/ident/rejected-a-name" } else { "C15/ident/accepted-a-non-name" }, want, b),
            Err(p) => out = out.fail(format!("C15/ident/panic@{}", panic_loc(&p)), want.to_string(), p),
        }
        out
    }
}

// ---------------------------------------------------------------------------------------------
// sub-check: history independence

#[derive(Serialize, Deserialize, Debug, Clone, PartialEq, Eq)]
pub struct Step {
    /// identifier exactly as passed to the provider (may be a case variant or a non-name)
    pub id: String,
    /// 0 = offset at instant (s, ns); 1 = instants of wall (s, ns); 2 = check_identifier(id)
    pub kind: u8,
    pub s: i64,
    pub ns: i32,
}
#[derive(Serialize, Deserialize, Debug, Clone)]
pub struct HistoryCase {
    pub steps: Vec<Step>,
}

#[derive(Debug, Clone, PartialEq, Eq)]
enum StepAns {
    Off(Ans<(i64, Option<i64>)>),
    Inst(Ans<Vec<i128>>),
    Id(Ans<bool>),
}
fn do_step(p: &FsTzdbProvider, st: &Step) -> StepAns {
    match st.kind {
        0 => StepAns::Off(impl_offset(p, &st.id, ns_of(st.s, st.ns))),
        1 => StepAns::Inst(impl_instants(p, &st.id, st.s, st.ns)),
        _ => StepAns::Id(match guard(|| p.check_identifier(&st.id)) {
            Ok(b) => Ans::Ok(b),
            Err(e) => Ans::Panic(panic_loc(&e)),
        }),
    }
}

pub struct HistorySub;
impl SubCheck for HistorySub {
    type Case = HistoryCase;
    fn name(&self) -> &'static str {
        "history"
    }
    fn eval(&self, c: &HistoryCase) -> Outcome {
        let shared = FsTzdbProvider::default();
        let mut seen: BTreeSet<&str> = BTreeSet::new();
        let mut seen_lower: BTreeSet<String> = BTreeSet::new();
        let (mut hits, mut fold_hits) = (0, 0);
        let mut out = Outcome::pass();
        for (i, st) in c.steps.iter().enumerate() {
            if st.kind != 2 {
                if seen.contains(st.id.as_str()) {
                    hits += 1;
                } else if seen_lower.contains(&st.id.to_ascii_lowercase()) {
                    fold_hits += 1;
                }
            }
            let a = do_step(&shared, st);
            let b = do_step(&FsTzdbProvider::default(), st);
            if a != b && !out.failed() {
                out = out.fail(
                    "C15/history/answer-depends-on-earlier-queries",
                    format!("step {i} {st:?} on a fresh provider: {b:?}"),
                    format!("same step after {i} earlier queries: {a:?}"),
                );
            }
            if st.kind != 2 {
                seen.insert(st.id.as_str());
                seen_lower.insert(st.id.to_ascii_lowercase());
            }
        }
        if hits > 0 {
            out = out.class("repeated-identifier");
        }
        if fold_hits > 0 {
            out = out.class("identifier-differs-only-in-case-from-an-earlier-one");
        }
        if seen.len() > 1 {
            out = out.class("several-identifiers");
        }
        out.nontrivial((hits > 0 || fold_hits > 0) && seen.len() > 1)
    }
}

// ---------------------------------------------------------------------------------------------
// point generation

/// zones that are always part of the quick tier (structurally diverse)
pub const FIXED_ZONES: &[&str] = &[
    "America/New_York", "Europe/London", "Europe/Dublin", "Australia/Lord_Howe", "Pacific/Apia", "Asia/Kolkata",
    "Asia/Kathmandu", "Africa/Casablanca", "America/Sao_Paulo", "Antarctica/Troll", "Pacific/Kiritimati",
    "Africa/Monrovia", "America/St_Johns", "Asia/Tehran", "UTC", "Etc/GMT+12", "Etc/GMT-14", "Etc/UTC", "Factory",
    "Europe/Berlin", "Europe/Lisbon", "Europe/Moscow", "Europe/Chisinau", "Europe/Istanbul", "Europe/Amsterdam",
    "Africa/El_Aaiun", "Africa/Cairo", "Africa/Windhoek", "Africa/Johannesburg", "Africa/Juba", "Africa/Abidjan",
    "America/Nuuk", "America/Scoresbysund", "America/Havana", "America/Santiago", "America/Asuncion", "America/Caracas",
    "America/Los_Angeles", "America/Anchorage", "America/Adak", "America/Phoenix", "America/Danmarkshavn",
    "America/Argentina/Buenos_Aires", "America/Miquelon", "America/Juneau", "America/Metlakatla", "America/Godthab",
    "Asia/Gaza", "Asia/Jerusalem", "Asia/Beirut", "Asia/Pyongyang", "Asia/Tokyo", "Asia/Shanghai", "Asia/Manila",
    "Asia/Kabul", "Asia/Yangon", "Asia/Colombo", "Asia/Dhaka", "Asia/Hong_Kong", "Asia/Amman",
    "Antarctica/Casey", "Antarctica/Macquarie", "Antarctica/Vostok", "Atlantic/Azores", "Atlantic/Reykjavik",
    "Australia/Sydney", "Australia/Eucla", "Australia/Adelaide", "Australia/Perth",
    "Pacific/Auckland", "Pacific/Chatham", "Pacific/Easter", "Pacific/Norfolk", "Pacific/Tongatapu", "Pacific/Fiji",
    "Pacific/Kwajalein", "Pacific/Honolulu", "Pacific/Marquesas", "Pacific/Guam", "Pacific/Bougainville",
    "Indian/Maldives", "CET", "MET", "EST5EDT", "HST", "GB", "Eire", "Israel", "NZ-CHAT", "Cuba", "Egypt", "Iran",
    "Navajo", "US/Eastern", "Zulu", "GMT0", "Etc/GMT+0", "W-SU", "PRC", "Singapore",
];

pub struct ZonePoints {
    pub zone: String,
    pub instants: Vec<(i64, i32)>,
    pub walls: Vec<(i64, i32)>,
}

fn push_around(v: &mut Vec<(i64, i32)>, s: i64, wide: bool) {
    // the second itself and its neighbours, sub-second instants around it (+-1 ns, +-0.5 s)
    for (ds, ns) in [(-1, 0), (0, 0), (1, 0), (-1, 999_999_999), (0, 1), (-1, 500_000_000), (0, 500_000_000)] {
        v.push((s + ds, ns));
    }
    if wide {
        for ds in [-3600, 3600, -86400, 86400] {
            v.push((s + ds, 0));
        }
    }
}

/// all points of one zone. `years` = footer years to visit densely (zones with a rule footer),
/// `extra` = seed-chosen (fraction, delta seconds, ns) triples for points near random transitions
pub fn zone_points(o: &Oracle, years: &[i64], extra: &[(u32, i64, i32)], uniform: &[(i64, i32)]) -> ZonePoints {
    let mut ins: Vec<(i64, i32)> = vec![];
    let mut walls: Vec<(i64, i32)> = vec![];
    let f = &o.file;
    let (lo_t, hi_t) = (t_min(), t_max());
    // every listed transition (index i, second s, offset before a, offset after b)
    let n = f.times.len();
    for i in 0..n {
        let s = f.times[i];
        let a = if i == 0 { f.types[0].utoff } else { f.types[f.idx[i - 1]].utoff };
        let b = f.types[f.idx[i]].utoff;
        push_around(&mut ins, s, true);
        if i + 1 < n {
            let mid = s + (f.times[i + 1] - s) / 2;
            ins.push((mid, 123_456_789));
            walls.push((mid + b, 0));
        }
        wall_points(&mut walls, s, a, b);
    }
    // before the first transition
    if let Some(&s0) = f.times.first() {
        for d in [86400, 366 * 86400, 50 * 366 * 86400] {
            ins.push((s0 - d, 0));
            ins.push((s0 - d, 999_999_999));
            walls.push((s0 - d, 0));
        }
    }
    // fixed anchors: year 1, 1900, epoch +-, 32-bit limits, year 9999
    for s in [
        lo_t,
        lo_t + 1,
        to_days(1000, 6, 1) * 86400,
        to_days(1800, 1, 1) * 86400,
        to_days(1900, 1, 1) * 86400,
        -2_147_483_649,
        -2_147_483_648,
        -1,
        0,
        1,
        2_147_483_646,
        2_147_483_647,
        2_147_483_648,
        4_294_967_295,
        4_294_967_296,
        to_days(2038, 1, 1) * 86400,
        to_days(2100, 2, 28) * 86400 + 43200,
        to_days(2400, 2, 29) * 86400 + 43200,
        to_days(5000, 7, 1) * 86400,
        hi_t - 1,
        hi_t,
    ] {
        ins.push((s, 0));
        ins.push((s, 999_999_999));
        ins.push((s - 1, 500_000_000));
        walls.push((s, 0));
        walls.push((s, 1));
    }
    // the footer: rule-based transitions of the chosen years (+-1 s, +-1 h, days around: the rule
    // names a weekday of a week of a month, so the days of that week and month end are visited)
    if o.posix.as_ref().is_some_and(|p| p.dst.is_some()) {
        for &y in years {
            for (e, a, b) in o.footer_events(y) {
                push_around(&mut ins, e, true);
                for d in [-8, -6, -3, -2, 2, 3, 6, 8] {
                    ins.push((e + d * 86400 + 1800, 0));
                    walls.push((e + a + d * 86400 + 1800, 0));
                }
                ins.push((e + 40 * 86400, 0));
                walls.push((e + b + 40 * 86400, 0));
                wall_points(&mut walls, e, a, b);
                // the rule day's local midnight and the hours before/after the change on that day
                let local_day = (e + a).div_euclid(86400) * 86400;
                for h in [0, 1, 5, 12, 23] {
                    walls.push((local_day + h * 3600 + 60, 0));
                    ins.push((local_day - a + h * 3600 + 60, 0));
                }
            }
        }
    } else {
        for &y in years {
            let s = to_days(y, 1, 1) * 86400;
            for d in [0, 180 * 86400 + 7 * 3600] {
                ins.push((s + d, 0));
                walls.push((s + d, 500));
            }
        }
    }
    // seed-chosen points near transitions of the zone's table and uniform ones
    let tab = &o.base.trans;
    for &(frac, delta, ns) in extra {
        if tab.is_empty() {
            break;
        }
        let i = (frac as u64 * tab.len() as u64 >> 32) as usize;
        let s = tab[i].0 + delta;
        ins.push((s, ns));
        walls.push((s + tab[i].1, ns));
    }
    for &(s, ns) in uniform {
        ins.push((s, ns));
        walls.push((s, ns));
    }
    let clamp = |v: &mut Vec<(i64, i32)>, margin: i64| {
        v.retain(|p| p.0 >= lo_t + margin && p.0 <= hi_t - margin);
        v.sort();
        v.dedup();
    };
    clamp(&mut ins, 0);
    // walls: keep two days inside the domain so that every candidate instant is a domain instant
    clamp(&mut walls, 2 * 86400);
    ZonePoints { zone: o.name.clone(), instants: ins, walls }
}

/// walls around the transition at `s` from offset a to offset b: the skipped/repeated stretch is
/// [s + min(a,b), s + max(a,b)) on the local line
fn wall_points(walls: &mut Vec<(i64, i32)>, s: i64, a: i64, b: i64) {
    let (lo, hi) = (s + a.min(b), s + a.max(b));
    for (w, ns) in [
        (lo - 3600, 0),
        (lo - 1, 0),
        (lo - 1, 999_999_999),
        (lo, 0),
        (lo, 1),
        (lo + 1, 0),
        (lo + (hi - lo) / 2, 0),
        (lo + (hi - lo) / 2, 500_000_000),
        (hi - 1, 0),
        (hi - 1, 999_999_999),
        (hi, 0),
        (hi, 1),
        (hi + 1, 0),
        (hi + 3600, 0),
        (s, 0),
    ] {
        walls.push((w, ns));
    }
}

struct Plan {
    zones: Vec<ZonePoints>,
    /// prefix sums over instants / walls
    ins_prefix: Vec<u64>,
    wall_prefix: Vec<u64>,
}
impl Plan {
    fn new(zones: Vec<ZonePoints>) -> Plan {
        let mut ins_prefix = vec![0u64];
        let mut wall_prefix = vec![0u64];
        for z in &zones {
            ins_prefix.push(ins_prefix.last().unwrap() + z.instants.len() as u64);
            wall_prefix.push(wall_prefix.last().unwrap() + z.walls.len() as u64);
        }
        Plan { zones, ins_prefix, wall_prefix }
    }
    fn locate(prefix: &[u64], i: u64) -> (usize, usize) {
        let z = prefix.partition_point(|p| *p <= i) - 1;
        (z, (i - prefix[z]) as usize)
    }
    fn offset_case(&self, i: u64) -> OffsetCase {
        let (z, k) = Plan::locate(&self.ins_prefix, i);
        let (s, ns) = self.zones[z].instants[k];
        OffsetCase { zone: self.zones[z].zone.clone(), s, ns }
    }
    fn wall_case(&self, i: u64, via_core_every: u64) -> WallCase {
        let (z, k) = Plan::locate(&self.wall_prefix, i);
        let (s, ns) = self.zones[z].walls[k];
        WallCase { zone: self.zones[z].zone.clone(), s, ns, via_core: i % via_core_every == 0 }
    }
}

// ---------------------------------------------------------------------------------------------
// identifiers: case variants and near misses

fn ident_cases(seed_bits: &[u64]) -> Vec<String> {
    let d = db();
    let mut v: Vec<String> = vec![];
    for (k, n) in d.names.iter().enumerate() {
        let bits = seed_bits[k % seed_bits.len()];
        v.push(n.clone());
        v.push(n.to_ascii_lowercase());
        v.push(n.to_ascii_uppercase());
        // seed-chosen mixed case
        v.push(
            n.chars()
                .enumerate()
                .map(|(i, c)| if bits >> (i % 64) & 1 == 1 { c.to_ascii_uppercase() } else { c.to_ascii_lowercase() })
                .collect(),
        );
        // near misses
        let b: Vec<char> = n.chars().collect();
        let pos = (bits >> 8) as usize % b.len();
        let mut del = b.clone();
        del.remove(pos);
        v.push(del.iter().collect());
        let mut sub = b.clone();
        sub[pos] = if sub[pos] == 'x' { 'y' } else { 'x' };
        v.push(sub.iter().collect());
        let mut ins = b.clone();
        ins.insert(pos, 'q');
        v.push(ins.iter().collect());
        if b.len() >= 2 {
            let p2 = pos.min(b.len() - 2);
            let mut sw = b.clone();
            sw.swap(p2, p2 + 1);
            v.push(sw.iter().collect());
        }
        v.push(format!("{n}x"));
        v.push(format!("{n}/"));
        v.push(format!("/{n}"));
        v.push(format!(" {n}"));
        v.push(format!("{n} "));
        v.push(format!("{n}\0"));
        v.push(format!("posix/{n}"));
        v.push(format!("right/{n}"));
        v.push(n[..n.len() - 1].to_string());
        v.push(n[1..].to_string());
        if n.contains('/') {
            v.push(n.replace('/', "\\"));
            v.push(n.replace('/', "//"));
            v.push(n.rsplit('/').next().unwrap().to_string());
            v.push(n.split('/').next().unwrap().to_string());
        }
        if n.contains('_') {
            v.push(n.replace('_', " "));
            v.push(n.replace('_', "-"));
            v.push(n.replace('_', ""));
        }
        // non-ASCII look-alikes must not fold: Kelvin sign for k/K, long s for s/S, dotless/dotted i
        for (a, u) in [('k', '\u{212A}'), ('K', '\u{212A}'), ('s', '\u{17F}'), ('S', '\u{17F}'), ('i', '\u{131}'), ('I', '\u{130}')] {
            if n.contains(a) {
                v.push(n.replacen(a, &u.to_string(), 1));
            }
        }
    }
    // things that exist in the zoneinfo directory (or around it) but are not Zone/Link names
    for s in [
        "", " ", "/", ".", "..", "localtime", "posixrules", "posix", "right", "posix/UTC", "right/UTC", "posix/Europe/London",
        "right/America/New_York", "tzdata.zi", "zone.tab", "zone1970.tab", "iso3166.tab", "leapseconds", "leap-seconds.list",
        "Etc", "Etc/", "America", "America/", "America/Argentina", "America/Indiana", "Europe", "../UTC", "./UTC", "Etc/../UTC",
        "Etc/GMT+13", "Etc/GMT-15", "Etc/GMT+1:00", "GMT+1", "GMT-1", "UTC+1", "UTC0", "UT", "Z", "z", "+00:00", "-05:00", "+0000",
        "EST", "MST", "HST", "EST5EDT", "CST6CDT", "MST7MDT", "PST8PDT", "WET", "CET", "MET", "EET", "PST", "CST", "EDT", "BST", "IST", "AEST",
        "Europe/Kyiv", "Europe/Kiev", "America/Ciudad_Juarez", "Asia/Calcutta", "Asia/Kolkata", "US/Pacific-New", "Asia/Riyadh87",
        "Mideast/Riyadh87", "SystemV/EST5EDT", "America/Nuuk", "Pacific/Kanton", "Pacific/Enderbury", "Antarctica/Troll", "Canada/East-Saskatchewan",
        "Europe/Belfast", "Atlantic/Jan_Mayen", "Asia/Hanoi", "Europe/Uzhgorod", "Factory", "factory", "FACTORY",
        "utc", "Utc", "uTc", "etc/utc", "ETC/UTC", "Etc/Utc", "gmt", "Gmt", "etc/gmt+12", "ETC/GMT+12",
    ] {
        v.push(s.to_string());
    }
    v
}

// ---------------------------------------------------------------------------------------------
// history strategy

fn history_strategy() -> BoxedStrategy<HistoryCase> {
    let d = db();
    let n = d.names.len();
    // a pool of few identifiers so that repeats are frequent: 1-3 names, each in its canonical
    // spelling plus a subset of {lower case, upper case, a non-name}
    let base = (0..n, 0u8..8).prop_map(move |(i, mask)| {
        let name = &db().names[i];
        let mut v = vec![name.clone()];
        if mask & 1 != 0 {
            v.push(name.to_ascii_lowercase());
        }
        if mask & 2 != 0 {
            v.push(name.to_ascii_uppercase());
        }
        if mask & 4 != 0 {
            v.push(format!("{name}x"));
        }
        v
    });
    let pool = proptest::collection::vec(base, 1..=3).prop_map(|v| v.into_iter().flatten().collect::<Vec<String>>());
    let step = (
        any::<prop::sample::Index>(),
        0u8..3,
        any::<u32>(),
        -90_000i64..90_000,
        prop_oneof![Just(0i32), 0i32..1_000_000_000],
        any::<bool>(),
        t_min() + 200_000..t_max() - 200_000,
    );
    (pool, proptest::collection::vec(step, 2..=16))
        .prop_map(|(pool, steps)| {
            let steps = steps
                .into_iter()
                .map(|(pi, kind, frac, delta, ns, uniform, ut)| {
                    let id = pi.get(&pool).clone();
                    // the canonical-case name decides where the interesting instants are
                    let canon = db().names.iter().find(|n| n.eq_ignore_ascii_case(&id));
                    let s = match canon.and_then(|c| oracle(c)) {
                        Some(o) if !uniform && !o.base.trans.is_empty() => {
                            let tab = &o.base.trans;
                            let i = (frac as u64 * tab.len() as u64 >> 32) as usize;
                            tab[i].0 + delta + if kind == 1 { tab[i].1 } else { 0 }
                        }
                        _ => ut,
                    };
                    Step { id, kind, s, ns }
                })
                .collect();
            HistoryCase { steps }
        })
        .boxed()
}

// ---------------------------------------------------------------------------------------------
// run

fn footer_years(tier: Tier, seeded: &[i64]) -> Vec<i64> {
    let mut y: Vec<i64> = match tier {
        Tier::Quick => (2037..=2070).chain((2071..=2500).step_by(11)).collect(),
        Tier::Thorough => (2037..=2500).collect(),
    };
    y.extend([2099, 2100, 2101, 2399, 2400, 2401, 2500, 3000, 4000, 9998, 9999]);
    y.extend(seeded.iter().copied());
    y.sort();
    y.dedup();
    y
}

pub fn run(ctx: &mut Ctx) {
    let d = db();
    ctx.rule = "offset/wall: for every chosen zone every listed transition second s: s-1, s, s+1, s*1e9+-1 ns, s+-0.5 s, s+-1 h, s+-1 d, midpoints; before the first transition; fixed anchors (year 1, 1800, 1900, +-2^31, 2^32, 2038, 2100, 2400, 5000, 9999); rule-based footer transitions of the chosen years (quick: 2037-2070, every 11th year to 2500, century turns, seed-chosen years to 9999; thorough: every year 2037-2500 + 200 seed-chosen later years) with the same pattern plus the days of the rule's week and the hours of the rule's day; seed-chosen points near random transitions and uniform over years 1-9999; walls = the edges, middle and outside of every skipped/repeated stretch [s+min(a,b), s+max(a,b)) (+-1 s, +-1 ns) and the images of the instants. quick: ~100 fixed structurally diverse zones + seed-chosen rest to 120; thorough: all 598 names. non-trivial (offset, wall) = within 1 h of a transition, or before the first / after the last listed transition, or negative epoch, or the nearest transition is a negative-DST one or an offset change between two non-DST types, or wall inside a gap/overlap. start-of-day: every (zone, listed transition, date) of the whole database whose skipped local stretch contains the date's midnight (3774 with tzdata 2025a), all non-trivial. ident: every name in 4 case variants + ~20 near misses each + directory entries that are not names; non-trivial = not byte-equal to a name. history: generated sequences of 2-16 queries over a pool of 1-3 names in up to 4 spellings (canonical, lower, upper, non-name) against one provider vs a fresh provider per query; non-trivial = some identifier repeats (exactly or up to case) and more than one identifier is used.".into();
    ctx.assumptions = vec![
        format!("the data are the TZif files of {ZONEDIR} (tzdata {}), read independently by props::c15::tzif (RFC 8536 3.2: type 0 before the first transition, the transition second belongs to the new type, footer after the last transition)", d.version),
        "names = Zone and Link names of tzdata.zi (597 judged; `Factory` executed but unjudged: a Zone line, but a placeholder that is not in the normaliser's source files and that ECMA-402 implementations omit); posix/, right/, posixrules, localtime and the .tab files of the directory are not names and must be rejected".into(),
        "IsoDateTime values are built through public API (Default + public fields + IsoTime::new + IsoDateTime::new); every 16th wall case is observed through PlainDateTime::to_zoned_date_time_with_provider with a recording wrapper instead".into(),
        "candidate instants are compared as a sorted set (their order is C13's concern); of TimeZoneOffset only `.offset` is compared; `transition_epoch` is observed through what the crate does with it: the start of day (PlainDate::to_zoned_date_time_with_provider without a time) on every date whose midnight a listed transition skipped, all zones, must be that transition".into(),
        "offset and wall reuse one provider per (worker thread, zone) because the crate reads a zone file with ~3500 one-byte reads; a replayed case starts from a fresh provider; independence from earlier queries is decided by the history sub-check".into(),
    ];
    for p in &d.problems {
        ctx.note(format!("data remark: {p}"));
    }
    match tzif::self_test() {
        Ok(n) => ctx.note(format!("tzif self-test: ok ({n} hand-computed vectors)")),
        Err(e) => {
            println!("INCONCLUSIVE property=C15 tzif self-test failed: {e}");
            std::process::exit(2);
        }
    }
    if d.oracles.len() != d.names.len() {
        println!("INCONCLUSIVE property=C15 {} of {} zone files unreadable by the oracle: {:?}", d.names.len() - d.oracles.len(), d.names.len(), d.problems);
        std::process::exit(2);
    }
    let tier = ctx.tier;

    // ---- zone choice
    let seed = ctx.sub_seed("plan", 0);
    let zones: Vec<String> = match tier {
        Tier::Thorough => d.names.clone(),
        Tier::Quick => {
            let mut z: Vec<String> = FIXED_ZONES.iter().filter(|n| d.oracles.contains_key(**n)).map(|s| s.to_string()).collect();
            let picks = sample_strategy(&(0..d.names.len()), seed, 400);
            for i in picks {
                if z.len() >= 120 {
                    break;
                }
                if !z.contains(&d.names[i]) {
                    z.push(d.names[i].clone());
                }
            }
            z
        }
    };
    let seeded_years: Vec<i64> = sample_strategy(&(2501i64..=9999), seed ^ 1, tier.pick(12, 200) as usize);
    let years = footer_years(tier, &seeded_years);
    let n_extra = tier.pick(150, 600) as usize;
    let plan_zones: Vec<ZonePoints> = zones
        .iter()
        .enumerate()
        .map(|(k, z)| {
            let o = oracle(z).unwrap();
            let extra = sample_strategy(&(any::<u32>(), -100_000i64..100_000, prop_oneof![Just(0i32), 0i32..1_000_000_000]), seed ^ (k as u64 + 2) << 8, n_extra);
            let uniform = sample_strategy(&(t_min()..=t_max(), prop_oneof![Just(0i32), 0i32..1_000_000_000]), seed ^ (k as u64 + 2) << 8 ^ 7, n_extra / 3);
            zone_points(&o, &years, &extra, &uniform)
        })
        .collect();
    let plan = Plan::new(plan_zones);
    let n_ins = *plan.ins_prefix.last().unwrap();
    let n_wall = *plan.wall_prefix.last().unwrap();
    ctx.extra.insert("zones_visited".into(), json!(zones.len()));
    ctx.extra.insert("footer_years_visited".into(), json!(years.len()));
    ctx.extra.insert("tzdata_version".into(), json!(d.version));
    ctx.extra.insert(
        "defect_models".into(),
        json!("a failing offset/wall case gets a narrow signature only if the observed answer equals the correct lookup with a set of named defects injected (props/c15/model.rs: smallest explaining set, named after its highest-priority member); everything else is C15/<sub>/mismatch"),
    );

    ctx.run_enum(&OffsetSub, n_ins, &|i| plan.offset_case(i), false);
    ctx.run_enum(&WallSub, n_wall, &|i| plan.wall_case(i, 16), false);

    // ---- start of day on every date whose midnight a listed transition skipped, in every zone of the database (both
    // tiers: some hundred cases), observed through PlainDate::to_zoned_date_time_with_provider
    let sods = midnight_gap_cases(&d.names);
    ctx.extra.insert("midnight_gap_dates".into(), json!(sods.len()));
    ctx.run_enum(&SodSub, sods.len() as u64, &|i| sods[i as usize].clone(), false);

    // ---- identifiers
    let bits = sample_strategy(&any::<u64>(), seed ^ 3, 97);
    let ids = ident_cases(&bits);
    ctx.run_enum(&IdentSub, ids.len() as u64, &|i| IdentCase { s: ids[i as usize].clone() }, false);

    // ---- history
    ctx.run_prop(&HistorySub, &history_strategy, tier.pick(4_000, 60_000));

    // ---- generator self-check: every class the property names must have been reached
    let floors: [(&str, u64); 14] = [
        ("before-first-transition", 500),
        ("after-last-listed", 500),
        ("inside-table", 500),
        ("at-transition-second+-1", 500),
        ("within-1h-of-transition", 500),
        ("negative-epoch", 500),
        ("year>=2038", 500),
        ("sub-second", 500),
        ("nearest-transition-negative-dst-or-nondst-change", 500),
        ("wall-in-gap", 200),
        ("wall-in-overlap", 200),
        ("case-variant", 500),
        ("repeated-identifier", 200),
        ("identifier-differs-only-in-case-from-an-earlier-one", 100),
    ];
    for (class, floor) in floors {
        let n = ctx.stats.classes.get(class).copied().unwrap_or(0);
        // (a lane that found a violation stops counting, so floors are only meaningful on a clean run)
        if n < floor && ctx.violations.is_empty() {
            println!("INCONCLUSIVE property=C15 generator starved: class '{class}' reached {n} times (floor {floor})");
            std::process::exit(2);
        }
    }

    // ---- development aid: cross-check of the oracle against CPython zoneinfo (never part of the verdict)
    if std::env::var("VERIF_C15_PYCHECK").is_ok() {
        let msg = python_crosscheck(&plan);
        println!("C15 oracle-of-the-oracle: {msg}");
        ctx.note(format!("oracle cross-check vs CPython zoneinfo: {msg}"));
    }
}

pub fn replay(ctx: &mut Ctx, sub: &str, case: &Value) -> bool {
    match sub {
        "offset" => ctx.replay_case(&OffsetSub, case),
        "wall" => ctx.replay_case(&WallSub, case),
        "start-of-day" => ctx.replay_case(&SodSub, case),
        "ident" => ctx.replay_case(&IdentSub, case),
        "history" => ctx.replay_case(&HistorySub, case),
        _ => false,
    }
}

// ---------------------------------------------------------------------------------------------
// development-time cross-check of `tzif` against CPython's zoneinfo (same files, other reader)

const PY: &str = r#"
import sys, json
from datetime import datetime, timedelta, timezone
from zoneinfo import ZoneInfo
EPOCH = datetime(1970, 1, 1, tzinfo=timezone.utc)
NAIVE = datetime(1970, 1, 1)
bad = 0; n_off = 0; n_wall = 0; shown = 0
for line in open(sys.argv[1]):
    rec = json.loads(line)
    z = ZoneInfo(rec["zone"])
    for s, off in rec["offsets"]:
        try:
            dt = (EPOCH + timedelta(seconds=s)).astimezone(z)
            got = int(dt.utcoffset().total_seconds())
        except OverflowError:
            continue
        n_off += 1
        if got != off:
            bad += 1
            if shown < 20:
                shown += 1; print("OFFSET", rec["zone"], s, "oracle", off, "cpython", got)
    for w, inst in rec["walls"]:
        try:
            naive = NAIVE + timedelta(seconds=w)
            got = set()
            for fold in (0, 1):
                dt = naive.replace(tzinfo=z, fold=fold)
                cand = w - int(dt.utcoffset().total_seconds())
                back = (EPOCH + timedelta(seconds=cand)).astimezone(z).replace(tzinfo=None)
                if back == naive:
                    got.add(cand)
        except OverflowError:
            continue
        n_wall += 1
        if sorted(got) != inst:
            bad += 1
            if shown < 20:
                shown += 1; print("WALL", rec["zone"], w, "oracle", inst, "cpython", sorted(got))
print("RESULT offsets=%d walls=%d mismatches=%d" % (n_off, n_wall, bad))
"#;

fn python_crosscheck(plan: &Plan) -> String {
    use std::io::Write;
    let dir = std::env::temp_dir().join(format!("c15-pycheck-{}", std::process::id()));
    let _ = std::fs::create_dir_all(&dir);
    let data = dir.join("samples.jsonl");
    let script = dir.join("check.py");
    let res = (|| -> Result<String, String> {
        let mut f = std::io::BufWriter::new(std::fs::File::create(&data).map_err(|e| e.to_string())?);
        for z in &plan.zones {
            let o = oracle(&z.zone).unwrap();
            // whole seconds only (datetime has microseconds; the sub-second handling is the provider's, not the oracle's)
            let offs: Vec<(i64, i64)> = z.instants.iter().filter(|p| p.1 == 0).map(|p| (p.0, o.offset_at(ns_of(p.0, 0)))).collect();
            let walls: Vec<(i64, Vec<i64>)> =
                z.walls.iter().filter(|p| p.1 == 0).map(|p| (p.0, o.instants(ns_of(p.0, 0)).into_iter().map(|t| (t / S) as i64).collect())).collect();
            writeln!(f, "{}", json!({"zone": z.zone, "offsets": offs, "walls": walls})).map_err(|e| e.to_string())?;
        }
        f.flush().map_err(|e| e.to_string())?;
        std::fs::write(&script, PY).map_err(|e| e.to_string())?;
        let out = std::process::Command::new("python3").arg(&script).arg(&data).output().map_err(|e| format!("python3 not runnable: {e}"))?;
        let text = String::from_utf8_lossy(&out.stdout).into_owned() + &String::from_utf8_lossy(&out.stderr);
        Ok(text.trim().replace('\n', " | "))
    })();
    let _ = std::fs::remove_dir_all(&dir);
    res.unwrap_or_else(|e| format!("not run: {e}"))
}
