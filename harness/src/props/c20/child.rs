//! C20 worker processes. The provider, its cache and its poison flag are process-wide, so every
//! program / history is executed by a fresh child: the same binary re-invoked with
//! `TVERIF_C20_CHILD=<job file>`; results are written to `<job file>.out`.

use super::calls::{exec_global, Call};
use serde::{Deserialize, Serialize};
use std::process::{Command, Stdio};
use std::sync::atomic::{AtomicU64, Ordering};
use std::sync::{Arc, Barrier};
use std::time::{Duration, Instant};

pub const CHILD_ENV: &str = "TVERIF_C20_CHILD";

#[derive(Serialize, Deserialize, Debug, Clone, PartialEq, Eq)]
pub struct Step {
    pub call: Call,
    /// execute on a freshly spawned thread that is joined before the next step (histories)
    #[serde(default)]
    pub thr: bool,
    /// not executed (its isolated run panics: that is another property's defect and would poison
    /// the lock as a side effect)
    #[serde(default)]
    pub skip: bool,
}

#[derive(Serialize, Deserialize, Debug, Clone)]
pub struct Job {
    /// executed first, sequentially, on the main thread (warm-up)
    pub warm: Vec<Step>,
    pub threads: Vec<Vec<Step>>,
    /// None: one OS thread per list, all released by a barrier. Some(order): single-threaded, the
    /// k-th entry names the thread whose next step runs k-th
    pub order: Option<Vec<u16>>,
}

#[derive(Serialize, Deserialize, Debug, Clone)]
pub struct JobResult {
    pub warm: Vec<String>,
    pub threads: Vec<Vec<String>>,
}

pub const SKIPPED: &str = "<skipped>";

fn run_step(s: &Step) -> String {
    if s.skip {
        return SKIPPED.into();
    }
    if s.thr {
        let c = s.call.clone();
        return std::thread::spawn(move || exec_global(&c))
            .join()
            .unwrap_or_else(|_| "Panic(step thread died)".into());
    }
    exec_global(&s.call)
}

pub fn run_job(job: &Job) -> JobResult {
    let warm: Vec<String> = job.warm.iter().map(run_step).collect();
    let mut out: Vec<Vec<String>> = job.threads.iter().map(|t| Vec::with_capacity(t.len())).collect();
    match &job.order {
        Some(order) => {
            let mut pos = vec![0usize; job.threads.len()];
            for &t in order {
                let t = t as usize;
                if t < job.threads.len() && pos[t] < job.threads[t].len() {
                    out[t].push(run_step(&job.threads[t][pos[t]]));
                    pos[t] += 1;
                }
            }
            // anything the order did not name runs at the end, thread by thread
            for t in 0..job.threads.len() {
                while pos[t] < job.threads[t].len() {
                    out[t].push(run_step(&job.threads[t][pos[t]]));
                    pos[t] += 1;
                }
            }
        }
        None => {
            let barrier = Arc::new(Barrier::new(job.threads.len().max(1)));
            let handles: Vec<_> = job
                .threads
                .iter()
                .cloned()
                .map(|steps| {
                    let b = barrier.clone();
                    std::thread::spawn(move || {
                        b.wait();
                        steps.iter().map(run_step).collect::<Vec<String>>()
                    })
                })
                .collect();
            for (i, h) in handles.into_iter().enumerate() {
                out[i] = h.join().unwrap_or_else(|_| vec!["Panic(worker thread died)".into()]);
            }
        }
    }
    JobResult { warm, threads: out }
}

/// Child entry: called at the top of `c20::run`; never returns when the variable is set.
pub fn child_main_if_requested() {
    let Ok(path) = std::env::var(CHILD_ENV) else { return };
    let text = std::fs::read_to_string(&path).unwrap_or_else(|e| {
        eprintln!("C20 child: cannot read job {path}: {e}");
        std::process::exit(3)
    });
    let job: Job = serde_json::from_str(&text).unwrap_or_else(|e| {
        eprintln!("C20 child: bad job {path}: {e}");
        std::process::exit(3)
    });
    let res = run_job(&job);
    let tmp = format!("{path}.out.tmp");
    std::fs::write(&tmp, serde_json::to_vec(&res).unwrap()).expect("C20 child: write result");
    std::fs::rename(&tmp, format!("{path}.out")).expect("C20 child: publish result");
    std::process::exit(0);
}

pub enum ChildOutcome {
    Done(JobResult),
    /// started, then exited / died without a readable result
    Died(String),
    /// the worker could not be started or could not read its job (harness/infrastructure)
    Infra(String),
    Timeout,
}

static COUNTER: AtomicU64 = AtomicU64::new(0);

pub fn timeout_s() -> u64 {
    std::env::var("TVERIF_C20_TIMEOUT_S").ok().and_then(|s| s.parse().ok()).unwrap_or(20)
}

/// Runs the job in a fresh child process, polling until it exits or the watchdog expires.
pub fn run_in_child(job: &Job) -> ChildOutcome {
    let dir = std::env::temp_dir().join(format!("tverif-c20-{}", std::process::id()));
    let _ = std::fs::create_dir_all(&dir);
    let n = COUNTER.fetch_add(1, Ordering::Relaxed);
    let path = dir.join(format!("job-{n}.json"));
    let out = dir.join(format!("job-{n}.json.out"));
    let errp = dir.join(format!("job-{n}.json.err"));
    let cleanup = || {
        let _ = std::fs::remove_file(&path);
        let _ = std::fs::remove_file(&out);
        let _ = std::fs::remove_file(&errp);
    };
    if let Err(e) = std::fs::write(&path, serde_json::to_vec(job).unwrap()) {
        return ChildOutcome::Infra(format!("cannot write job file: {e}"));
    }
    // /proc/self/exe is this very binary even if the file on disk was rebuilt meanwhile
    let exe = if std::path::Path::new("/proc/self/exe").exists() {
        std::path::PathBuf::from("/proc/self/exe")
    } else {
        match std::env::current_exe() {
            Ok(e) => e,
            Err(e) => return ChildOutcome::Infra(format!("current_exe: {e}")),
        }
    };
    let errf = match std::fs::File::create(&errp) {
        Ok(f) => f,
        Err(e) => return ChildOutcome::Infra(format!("cannot create stderr file: {e}")),
    };
    let mut child = match Command::new(exe)
        .args(["C20", "quick", "--no-evidence"])
        .env(CHILD_ENV, &path)
        .env_remove("VERIF_KF_EXTRA")
        .stdin(Stdio::null())
        .stdout(Stdio::null())
        .stderr(Stdio::from(errf))
        .spawn()
    {
        Ok(c) => c,
        Err(e) => {
            cleanup();
            return ChildOutcome::Infra(format!("spawn failed: {e}"));
        }
    };
    let deadline = Instant::now() + Duration::from_secs(timeout_s());
    let mut sleep_us = 200u64;
    let status = loop {
        match child.try_wait() {
            Ok(Some(st)) => break st,
            Ok(None) => {}
            Err(e) => {
                let _ = child.kill();
                let _ = child.wait();
                cleanup();
                return ChildOutcome::Infra(format!("wait failed: {e}"));
            }
        }
        if Instant::now() >= deadline {
            let _ = child.kill();
            let _ = child.wait();
            cleanup();
            return ChildOutcome::Timeout;
        }
        std::thread::sleep(Duration::from_micros(sleep_us));
        sleep_us = (sleep_us * 2).min(5_000);
    };
    let res = std::fs::read(&out).ok().and_then(|b| serde_json::from_slice::<JobResult>(&b).ok());
    let r = match res {
        Some(r) if status.success() => ChildOutcome::Done(r),
        _ => {
            let err = std::fs::read_to_string(&errp).unwrap_or_default();
            let tail: String = err.chars().rev().take(600).collect::<String>().chars().rev().collect();
            if status.code() == Some(3) {
                ChildOutcome::Infra(format!("worker could not read its job; stderr: {tail}"))
            } else {
                ChildOutcome::Died(format!("status {status}; stderr: {tail}"))
            }
        }
    };
    cleanup();
    r
}

pub fn remove_job_dir() {
    let dir = std::env::temp_dir().join(format!("tverif-c20-{}", std::process::id()));
    let _ = std::fs::remove_dir_all(&dir);
}
