//! C20 call universe: one convenience-API call as plain data, executed either through the
//! process-wide provider (the wrappers in `src/builtins/compiled/*.rs`) or through the matching
//! `_with_provider` core functions against a caller-supplied provider (the isolated oracle).
//!
//! The executor `exec` is written ONCE, generic over `Api`; the two `Api` implementations are a
//! 1:1 table wrapper <-> `_with_provider` twin, so both sides run the same recipe with the same
//! options and differ only in which provider instance serves them.
//!
//! Deliberately absent: `ZonedDateTime::microsecond()` / `nanosecond()` (both forward to
//! `millisecond_with_provider` on the pinned tree: a mis-wired wrapper is C19's subject, not a
//! history/schedule dependence) `Now::*` is compared by verdict only (its reading depends on the clock).

use crate::conv::{diff_settings, duration_fields, err_str, iso, round_options};
use crate::run::guard;
use serde::{Deserialize, Serialize};
use std::cmp::Ordering;
use std::str::FromStr;
use temporal_rs::options::{
    ArithmeticOverflow, DifferenceSettings, Disambiguation, DisplayCalendar, DisplayOffset, DisplayTimeZone,
    OffsetDisambiguation, RelativeTo, RoundingOptions, ToStringRoundingOptions, Unit,
};
use temporal_rs::primitive::FiniteF64;
use temporal_rs::provider::{TimeZoneProvider, TransitionDirection};
use temporal_rs::{
    Duration, Instant, MonthCode, PlainDate, PlainDateTime, PlainTime, TemporalError, TemporalResult, TimeZone,
    ZonedDateTime,
};
use tinystr::TinyAsciiStr;

pub const LOCK_MSG: &str = "Unable to acquire lock";
pub const INJECTED: &str = "Panic(injected)";

// ------------------------------------------------------------------------------------------------
// plain data

#[derive(Serialize, Deserialize, Debug, Clone, Copy, PartialEq, Eq)]
pub enum Acc {
    Year,
    Month,
    MonthCode,
    Day,
    Hour,
    Minute,
    Second,
    Millisecond,
    Offset,
    OffsetNs,
    Era,
    EraYear,
    DayOfWeek,
    DayOfYear,
    WeekOfYear,
    YearOfWeek,
    DaysInWeek,
    DaysInMonth,
    DaysInYear,
    MonthsInYear,
    InLeapYear,
    HoursInDay,
    StartOfDay,
    ToPlainDate,
    ToPlainTime,
    ToPlainDateTime,
    Ixdtf,
    /// `Display` / `to_string()` (the impl `expect`s the wrapper's result)
    Display,
    TransitionNext,
    TransitionPrev,
}

pub const ACCS: [Acc; 30] = [
    Acc::Year,
    Acc::Month,
    Acc::MonthCode,
    Acc::Day,
    Acc::Hour,
    Acc::Minute,
    Acc::Second,
    Acc::Millisecond,
    Acc::Offset,
    Acc::OffsetNs,
    Acc::Era,
    Acc::EraYear,
    Acc::DayOfWeek,
    Acc::DayOfYear,
    Acc::WeekOfYear,
    Acc::YearOfWeek,
    Acc::DaysInWeek,
    Acc::DaysInMonth,
    Acc::DaysInYear,
    Acc::MonthsInYear,
    Acc::InLeapYear,
    Acc::HoursInDay,
    Acc::StartOfDay,
    Acc::ToPlainDate,
    Acc::ToPlainTime,
    Acc::ToPlainDateTime,
    Acc::Ixdtf,
    Acc::Display,
    Acc::TransitionNext,
    Acc::TransitionPrev,
];

/// the IXDTF writer under every combination of the offset / time-zone-name / calendar display options (one entry
/// point, twelve option sets: a shortcut for one combination is a different code path under the same lock)
fn all_ixdtf_variants(f: impl Fn(DisplayOffset, DisplayTimeZone, DisplayCalendar) -> TemporalResult<String>) -> TemporalResult<String> {
    let mut out = Vec::new();
    for o in [DisplayOffset::Auto, DisplayOffset::Never] {
        for t in [DisplayTimeZone::Auto, DisplayTimeZone::Never, DisplayTimeZone::Critical] {
            for c in [DisplayCalendar::Auto, DisplayCalendar::Always] {
                out.push(f(o, t, c)?);
            }
        }
    }
    Ok(out.join(" | "))
}

/// units by index: 0 year .. 9 nanosecond
pub const UNIT_TABLE: [Unit; 10] = [
    Unit::Year,
    Unit::Month,
    Unit::Week,
    Unit::Day,
    Unit::Hour,
    Unit::Minute,
    Unit::Second,
    Unit::Millisecond,
    Unit::Microsecond,
    Unit::Nanosecond,
];
fn unit(i: u8) -> Unit {
    UNIT_TABLE[(i as usize).min(9)]
}
fn disamb(i: u8) -> Disambiguation {
    match i % 4 {
        0 => Disambiguation::Compatible,
        1 => Disambiguation::Earlier,
        2 => Disambiguation::Later,
        _ => Disambiguation::Reject,
    }
}
fn offdis(i: u8) -> OffsetDisambiguation {
    match i % 4 {
        0 => OffsetDisambiguation::Reject,
        1 => OffsetDisambiguation::Use,
        2 => OffsetDisambiguation::Prefer,
        _ => OffsetDisambiguation::Ignore,
    }
}

/// An instant as (epoch seconds, nanoseconds of the second): serde_json `Value` cannot hold an i128.
#[derive(Serialize, Deserialize, Debug, Clone, Copy, PartialEq, Eq)]
pub struct T {
    pub s: i64,
    pub n: u32,
}
impl T {
    pub fn ns(&self) -> i128 {
        self.s as i128 * 1_000_000_000 + self.n as i128
    }
}

/// One convenience-API call (possibly a short recipe: construct, then one operation).
#[derive(Serialize, Deserialize, Debug, Clone, PartialEq, Eq)]
pub enum Call {
    /// `ZonedDateTime::from_str(s, dis, off)` then accessor
    ZdtFromStr { s: String, dis: u8, off: u8, then: Acc },
    /// `ZonedDateTime::try_new(t, iso, zone)` (no provider) then accessor
    ZdtGet { t: T, zone: String, acc: Acc },
    /// `.add()` / `.subtract()` of a duration string
    ZdtAdd { t: T, zone: String, dur: String, sub: bool, reject: bool },
    /// `.until()` / `.since()` between two zoned values (possibly different zones)
    ZdtDiff { t: T, zone: String, t2: T, zone2: String, largest: Option<u8>, since: bool },
    /// `.with_plain_time()` (seconds of day)
    ZdtWithTime { t: T, zone: String, sec: u32 },
    /// `RelativeTo::try_from_str(rel)` alone
    RelTo { rel: String },
    /// `RelativeTo::try_from_str(rel)` then `Duration::round`
    DurRound { dur: String, rel: String, largest: Option<u8>, smallest: Option<u8> },
    /// `RelativeTo::try_from_str(rel)` then `Duration::total`
    DurTotal { dur: String, rel: String, unit: u8 },
    /// `RelativeTo::try_from_str(rel)` then `Duration::compare`
    DurCompare { a: String, b: String, rel: String },
    /// `Instant::to_ixdtf_string(zone, default)`
    InstantStr { t: T, zone: Option<String> },
    /// `PlainDateTime::try_new(..)` then `.to_zoned_date_time(zone, dis)`
    PdtToZdt { y: i32, mo: u8, d: u8, h: u8, mi: u8, sec: u8, zone: String, dis: u8 },
    /// `Now::plain_datetime_iso` / `plain_date_iso` / `plain_time_iso` (which = 0, 1, 2) in a zone: the reading
    /// depends on the clock, so only its verdict is compared (`now=ok` or the error)
    Now { which: u8, zone: String },
    /// fault injection (feature verif_hooks): panics while holding the provider lock
    InjectPanic,
}

impl Call {
    /// time-zone identifiers the call hands to the provider
    pub fn zones(&self) -> Vec<String> {
        fn annot(s: &str) -> Vec<String> {
            // first bracket annotation that is not key=value
            let mut out = vec![];
            let mut rest = s;
            while let Some(i) = rest.find('[') {
                let tail = &rest[i + 1..];
                let Some(j) = tail.find(']') else { break };
                let a = tail[..j].trim_start_matches('!');
                if !a.contains('=') {
                    out.push(a.to_string());
                    break;
                }
                rest = &tail[j + 1..];
            }
            out
        }
        match self {
            Call::ZdtFromStr { s, .. } => annot(s),
            Call::ZdtGet { zone, .. } | Call::ZdtAdd { zone, .. } | Call::ZdtWithTime { zone, .. } | Call::PdtToZdt { zone, .. } | Call::Now { zone, .. } => {
                vec![zone.clone()]
            }
            Call::ZdtDiff { zone, zone2, .. } => vec![zone.clone(), zone2.clone()],
            Call::RelTo { rel } | Call::DurRound { rel, .. } | Call::DurTotal { rel, .. } | Call::DurCompare { rel, .. } => annot(rel),
            Call::InstantStr { zone, .. } => zone.iter().cloned().collect(),
            Call::InjectPanic => vec![],
        }
    }
    pub fn kind_label(&self) -> &'static str {
        match self {
            Call::ZdtFromStr { .. } => "call:zdt-from-str",
            Call::ZdtGet { .. } => "call:zdt-accessor",
            Call::ZdtAdd { .. } => "call:zdt-add",
            Call::ZdtDiff { .. } => "call:zdt-diff",
            Call::ZdtWithTime { .. } => "call:zdt-with-time",
            Call::RelTo { .. } => "call:relative-to",
            Call::DurRound { .. } => "call:dur-round",
            Call::DurTotal { .. } => "call:dur-total",
            Call::DurCompare { .. } => "call:dur-compare",
            Call::InstantStr { .. } => "call:instant-str",
            Call::PdtToZdt { .. } => "call:pdt-to-zdt",
            Call::Now { .. } => "call:now",
            Call::InjectPanic => "call:inject-panic",
        }
    }
}

// ------------------------------------------------------------------------------------------------
// the 1:1 table wrapper <-> _with_provider

pub trait Api {
    fn from_str(&self, s: &str, d: Disambiguation, o: OffsetDisambiguation) -> TemporalResult<ZonedDateTime>;
    fn year(&self, z: &ZonedDateTime) -> TemporalResult<i32>;
    fn month(&self, z: &ZonedDateTime) -> TemporalResult<u8>;
    fn month_code(&self, z: &ZonedDateTime) -> TemporalResult<MonthCode>;
    fn day(&self, z: &ZonedDateTime) -> TemporalResult<u8>;
    fn hour(&self, z: &ZonedDateTime) -> TemporalResult<u8>;
    fn minute(&self, z: &ZonedDateTime) -> TemporalResult<u8>;
    fn second(&self, z: &ZonedDateTime) -> TemporalResult<u8>;
    fn millisecond(&self, z: &ZonedDateTime) -> TemporalResult<u16>;
    fn offset(&self, z: &ZonedDateTime) -> TemporalResult<String>;
    fn offset_nanoseconds(&self, z: &ZonedDateTime) -> TemporalResult<i64>;
    fn era(&self, z: &ZonedDateTime) -> TemporalResult<Option<TinyAsciiStr<16>>>;
    fn era_year(&self, z: &ZonedDateTime) -> TemporalResult<Option<i32>>;
    fn day_of_week(&self, z: &ZonedDateTime) -> TemporalResult<u16>;
    fn day_of_year(&self, z: &ZonedDateTime) -> TemporalResult<u16>;
    fn week_of_year(&self, z: &ZonedDateTime) -> TemporalResult<Option<u16>>;
    fn year_of_week(&self, z: &ZonedDateTime) -> TemporalResult<Option<i32>>;
    fn days_in_week(&self, z: &ZonedDateTime) -> TemporalResult<u16>;
    fn days_in_month(&self, z: &ZonedDateTime) -> TemporalResult<u16>;
    fn days_in_year(&self, z: &ZonedDateTime) -> TemporalResult<u16>;
    fn months_in_year(&self, z: &ZonedDateTime) -> TemporalResult<u16>;
    fn in_leap_year(&self, z: &ZonedDateTime) -> TemporalResult<bool>;
    fn hours_in_day(&self, z: &ZonedDateTime) -> TemporalResult<u8>;
    fn transition(&self, z: &ZonedDateTime, d: TransitionDirection) -> TemporalResult<Option<ZonedDateTime>>;
    fn start_of_day(&self, z: &ZonedDateTime) -> TemporalResult<ZonedDateTime>;
    fn to_plain_date(&self, z: &ZonedDateTime) -> TemporalResult<PlainDate>;
    fn to_plain_time(&self, z: &ZonedDateTime) -> TemporalResult<PlainTime>;
    fn to_plain_datetime(&self, z: &ZonedDateTime) -> TemporalResult<PlainDateTime>;
    fn ixdtf(&self, z: &ZonedDateTime) -> TemporalResult<String>;
    /// `Display`: Ok(text), or Err(text of the panic / of the error)
    fn display(&self, z: &ZonedDateTime) -> Result<String, String>;
    fn with_plain_time(&self, z: &ZonedDateTime, t: PlainTime) -> TemporalResult<ZonedDateTime>;
    fn add(&self, z: &ZonedDateTime, d: &Duration, o: Option<ArithmeticOverflow>) -> TemporalResult<ZonedDateTime>;
    fn subtract(&self, z: &ZonedDateTime, d: &Duration, o: Option<ArithmeticOverflow>) -> TemporalResult<ZonedDateTime>;
    fn since(&self, z: &ZonedDateTime, other: &ZonedDateTime, s: DifferenceSettings) -> TemporalResult<Duration>;
    fn until(&self, z: &ZonedDateTime, other: &ZonedDateTime, s: DifferenceSettings) -> TemporalResult<Duration>;
    fn relative_to(&self, s: &str) -> TemporalResult<RelativeTo>;
    fn dur_round(&self, d: &Duration, o: RoundingOptions, r: Option<RelativeTo>) -> TemporalResult<Duration>;
    fn dur_total(&self, d: &Duration, u: Unit, r: Option<RelativeTo>) -> TemporalResult<FiniteF64>;
    fn dur_compare(&self, a: &Duration, b: &Duration, r: Option<RelativeTo>) -> TemporalResult<Ordering>;
    fn instant_str(&self, i: &Instant, tz: Option<&TimeZone>) -> TemporalResult<String>;
    fn pdt_to_zdt(&self, p: &PlainDateTime, tz: &TimeZone, d: Disambiguation) -> TemporalResult<ZonedDateTime>;
    /// Now::plain_datetime_iso / plain_date_iso / plain_time_iso; Ok(()) when a reading was produced
    fn now(&self, which: u8, tz: TimeZone) -> TemporalResult<()>;
}

/// The convenience API: every method goes through `TZ_PROVIDER`.
pub struct Global;

impl Api for Global {
    fn from_str(&self, s: &str, d: Disambiguation, o: OffsetDisambiguation) -> TemporalResult<ZonedDateTime> {
        ZonedDateTime::from_str(s, d, o)
    }
    fn year(&self, z: &ZonedDateTime) -> TemporalResult<i32> {
        z.year()
    }
    fn month(&self, z: &ZonedDateTime) -> TemporalResult<u8> {
        z.month()
    }
    fn month_code(&self, z: &ZonedDateTime) -> TemporalResult<MonthCode> {
        z.month_code()
    }
    fn day(&self, z: &ZonedDateTime) -> TemporalResult<u8> {
        z.day()
    }
    fn hour(&self, z: &ZonedDateTime) -> TemporalResult<u8> {
        z.hour()
    }
    fn minute(&self, z: &ZonedDateTime) -> TemporalResult<u8> {
        z.minute()
    }
    fn second(&self, z: &ZonedDateTime) -> TemporalResult<u8> {
        z.second()
    }
    fn millisecond(&self, z: &ZonedDateTime) -> TemporalResult<u16> {
        z.millisecond()
    }
    fn offset(&self, z: &ZonedDateTime) -> TemporalResult<String> {
        z.offset()
    }
    fn offset_nanoseconds(&self, z: &ZonedDateTime) -> TemporalResult<i64> {
        z.offset_nanoseconds()
    }
    fn era(&self, z: &ZonedDateTime) -> TemporalResult<Option<TinyAsciiStr<16>>> {
        z.era()
    }
    fn era_year(&self, z: &ZonedDateTime) -> TemporalResult<Option<i32>> {
        z.era_year()
    }
    fn day_of_week(&self, z: &ZonedDateTime) -> TemporalResult<u16> {
        z.day_of_week()
    }
    fn day_of_year(&self, z: &ZonedDateTime) -> TemporalResult<u16> {
        z.day_of_year()
    }
    fn week_of_year(&self, z: &ZonedDateTime) -> TemporalResult<Option<u16>> {
        z.week_of_year()
    }
    fn year_of_week(&self, z: &ZonedDateTime) -> TemporalResult<Option<i32>> {
        z.year_of_week()
    }
    fn days_in_week(&self, z: &ZonedDateTime) -> TemporalResult<u16> {
        z.days_in_week()
    }
    fn days_in_month(&self, z: &ZonedDateTime) -> TemporalResult<u16> {
        z.days_in_month()
    }
    fn days_in_year(&self, z: &ZonedDateTime) -> TemporalResult<u16> {
        z.days_in_year()
    }
    fn months_in_year(&self, z: &ZonedDateTime) -> TemporalResult<u16> {
        z.months_in_year()
    }
    fn in_leap_year(&self, z: &ZonedDateTime) -> TemporalResult<bool> {
        z.in_leap_year()
    }
    fn hours_in_day(&self, z: &ZonedDateTime) -> TemporalResult<u8> {
        z.hours_in_day()
    }
    fn transition(&self, z: &ZonedDateTime, d: TransitionDirection) -> TemporalResult<Option<ZonedDateTime>> {
        z.get_time_zone_transition(d)
    }
    fn start_of_day(&self, z: &ZonedDateTime) -> TemporalResult<ZonedDateTime> {
        z.start_of_day()
    }
    fn to_plain_date(&self, z: &ZonedDateTime) -> TemporalResult<PlainDate> {
        z.to_plain_date()
    }
    fn to_plain_time(&self, z: &ZonedDateTime) -> TemporalResult<PlainTime> {
        z.to_plain_time()
    }
    fn to_plain_datetime(&self, z: &ZonedDateTime) -> TemporalResult<PlainDateTime> {
        z.to_plain_datetime()
    }
    fn ixdtf(&self, z: &ZonedDateTime) -> TemporalResult<String> {
        all_ixdtf_variants(|o, t, c| z.to_ixdtf_string(o, t, c, ToStringRoundingOptions::default()))
    }
    fn display(&self, z: &ZonedDateTime) -> Result<String, String> {
        // `impl Display for ZonedDateTime` calls the wrapper and `expect`s its result; the lock is
        // released before the `expect`, so a panic here does not poison anything by itself
        guard(|| z.to_string())
    }
    fn with_plain_time(&self, z: &ZonedDateTime, t: PlainTime) -> TemporalResult<ZonedDateTime> {
        z.with_plain_time(t)
    }
    fn add(&self, z: &ZonedDateTime, d: &Duration, o: Option<ArithmeticOverflow>) -> TemporalResult<ZonedDateTime> {
        z.add(d, o)
    }
    fn subtract(&self, z: &ZonedDateTime, d: &Duration, o: Option<ArithmeticOverflow>) -> TemporalResult<ZonedDateTime> {
        z.subtract(d, o)
    }
    fn since(&self, z: &ZonedDateTime, other: &ZonedDateTime, s: DifferenceSettings) -> TemporalResult<Duration> {
        z.since(other, s)
    }
    fn until(&self, z: &ZonedDateTime, other: &ZonedDateTime, s: DifferenceSettings) -> TemporalResult<Duration> {
        z.until(other, s)
    }
    fn relative_to(&self, s: &str) -> TemporalResult<RelativeTo> {
        RelativeTo::try_from_str(s)
    }
    fn dur_round(&self, d: &Duration, o: RoundingOptions, r: Option<RelativeTo>) -> TemporalResult<Duration> {
        d.round(o, r)
    }
    fn dur_total(&self, d: &Duration, u: Unit, r: Option<RelativeTo>) -> TemporalResult<FiniteF64> {
        d.total(u, r)
    }
    fn dur_compare(&self, a: &Duration, b: &Duration, r: Option<RelativeTo>) -> TemporalResult<Ordering> {
        a.compare(b, r)
    }
    fn instant_str(&self, i: &Instant, tz: Option<&TimeZone>) -> TemporalResult<String> {
        i.to_ixdtf_string(tz, ToStringRoundingOptions::default())
    }
    fn pdt_to_zdt(&self, p: &PlainDateTime, tz: &TimeZone, d: Disambiguation) -> TemporalResult<ZonedDateTime> {
        p.to_zoned_date_time(tz, d)
    }
    fn now(&self, which: u8, tz: TimeZone) -> TemporalResult<()> {
        use temporal_rs::Now;
        match which % 3 {
            0 => Now::plain_datetime_iso(Some(tz)).map(|_| ()),
            1 => Now::plain_date_iso(Some(tz)).map(|_| ()),
            _ => Now::plain_time_iso(Some(tz)).map(|_| ()),
        }
    }
}

/// The core API against a provider owned by the caller.
pub struct WithProv<'a, P: TimeZoneProvider>(pub &'a P);

impl<P: TimeZoneProvider> Api for WithProv<'_, P> {
    fn from_str(&self, s: &str, d: Disambiguation, o: OffsetDisambiguation) -> TemporalResult<ZonedDateTime> {
        ZonedDateTime::from_str_with_provider(s, d, o, self.0)
    }
    fn year(&self, z: &ZonedDateTime) -> TemporalResult<i32> {
        z.year_with_provider(self.0)
    }
    fn month(&self, z: &ZonedDateTime) -> TemporalResult<u8> {
        z.month_with_provider(self.0)
    }
    fn month_code(&self, z: &ZonedDateTime) -> TemporalResult<MonthCode> {
        z.month_code_with_provider(self.0)
    }
    fn day(&self, z: &ZonedDateTime) -> TemporalResult<u8> {
        z.day_with_provider(self.0)
    }
    fn hour(&self, z: &ZonedDateTime) -> TemporalResult<u8> {
        z.hour_with_provider(self.0)
    }
    fn minute(&self, z: &ZonedDateTime) -> TemporalResult<u8> {
        z.minute_with_provider(self.0)
    }
    fn second(&self, z: &ZonedDateTime) -> TemporalResult<u8> {
        z.second_with_provider(self.0)
    }
    fn millisecond(&self, z: &ZonedDateTime) -> TemporalResult<u16> {
        z.millisecond_with_provider(self.0)
    }
    fn offset(&self, z: &ZonedDateTime) -> TemporalResult<String> {
        z.offset_with_provider(self.0)
    }
    fn offset_nanoseconds(&self, z: &ZonedDateTime) -> TemporalResult<i64> {
        z.offset_nanoseconds_with_provider(self.0)
    }
    fn era(&self, z: &ZonedDateTime) -> TemporalResult<Option<TinyAsciiStr<16>>> {
        z.era_with_provider(self.0)
    }
    fn era_year(&self, z: &ZonedDateTime) -> TemporalResult<Option<i32>> {
        z.era_year_with_provider(self.0)
    }
    fn day_of_week(&self, z: &ZonedDateTime) -> TemporalResult<u16> {
        z.day_of_week_with_provider(self.0)
    }
    fn day_of_year(&self, z: &ZonedDateTime) -> TemporalResult<u16> {
        z.day_of_year_with_provider(self.0)
    }
    fn week_of_year(&self, z: &ZonedDateTime) -> TemporalResult<Option<u16>> {
        z.week_of_year_with_provider(self.0)
    }
    fn year_of_week(&self, z: &ZonedDateTime) -> TemporalResult<Option<i32>> {
        z.year_of_week_with_provider(self.0)
    }
    fn days_in_week(&self, z: &ZonedDateTime) -> TemporalResult<u16> {
        z.days_in_week_with_provider(self.0)
    }
    fn days_in_month(&self, z: &ZonedDateTime) -> TemporalResult<u16> {
        z.days_in_month_with_provider(self.0)
    }
    fn days_in_year(&self, z: &ZonedDateTime) -> TemporalResult<u16> {
        z.days_in_year_with_provider(self.0)
    }
    fn months_in_year(&self, z: &ZonedDateTime) -> TemporalResult<u16> {
        z.months_in_year_with_provider(self.0)
    }
    fn in_leap_year(&self, z: &ZonedDateTime) -> TemporalResult<bool> {
        z.in_leap_year_with_provider(self.0)
    }
    fn hours_in_day(&self, z: &ZonedDateTime) -> TemporalResult<u8> {
        z.hours_in_day_with_provider(self.0)
    }
    fn transition(&self, z: &ZonedDateTime, d: TransitionDirection) -> TemporalResult<Option<ZonedDateTime>> {
        z.get_time_zone_transition_with_provider(d, self.0)
    }
    fn start_of_day(&self, z: &ZonedDateTime) -> TemporalResult<ZonedDateTime> {
        z.start_of_day_with_provider(self.0)
    }
    fn to_plain_date(&self, z: &ZonedDateTime) -> TemporalResult<PlainDate> {
        z.to_plain_date_with_provider(self.0)
    }
    fn to_plain_time(&self, z: &ZonedDateTime) -> TemporalResult<PlainTime> {
        z.to_plain_time_with_provider(self.0)
    }
    fn to_plain_datetime(&self, z: &ZonedDateTime) -> TemporalResult<PlainDateTime> {
        z.to_plain_datetime_with_provider(self.0)
    }
    fn ixdtf(&self, z: &ZonedDateTime) -> TemporalResult<String> {
        all_ixdtf_variants(|o, t, c| z.to_ixdtf_string_with_provider(o, t, c, ToStringRoundingOptions::default(), self.0))
    }
    fn display(&self, z: &ZonedDateTime) -> Result<String, String> {
        // what `Display` prints is, by its own definition, the default-option IXDTF string
        z.to_string_with_provider(self.0).map_err(|e| err_str(&e))
    }
    fn with_plain_time(&self, z: &ZonedDateTime, t: PlainTime) -> TemporalResult<ZonedDateTime> {
        z.with_plain_time_and_provider(t, self.0)
    }
    fn add(&self, z: &ZonedDateTime, d: &Duration, o: Option<ArithmeticOverflow>) -> TemporalResult<ZonedDateTime> {
        z.add_with_provider(d, o, self.0)
    }
    fn subtract(&self, z: &ZonedDateTime, d: &Duration, o: Option<ArithmeticOverflow>) -> TemporalResult<ZonedDateTime> {
        z.subtract_with_provider(d, o, self.0)
    }
    fn since(&self, z: &ZonedDateTime, other: &ZonedDateTime, s: DifferenceSettings) -> TemporalResult<Duration> {
        z.since_with_provider(other, s, self.0)
    }
    fn until(&self, z: &ZonedDateTime, other: &ZonedDateTime, s: DifferenceSettings) -> TemporalResult<Duration> {
        z.until_with_provider(other, s, self.0)
    }
    fn relative_to(&self, s: &str) -> TemporalResult<RelativeTo> {
        RelativeTo::try_from_str_with_provider(s, self.0)
    }
    fn dur_round(&self, d: &Duration, o: RoundingOptions, r: Option<RelativeTo>) -> TemporalResult<Duration> {
        d.round_with_provider(o, r, self.0)
    }
    fn dur_total(&self, d: &Duration, u: Unit, r: Option<RelativeTo>) -> TemporalResult<FiniteF64> {
        d.total_with_provider(u, r, self.0)
    }
    fn dur_compare(&self, a: &Duration, b: &Duration, r: Option<RelativeTo>) -> TemporalResult<Ordering> {
        a.compare_with_provider(b, r, self.0)
    }
    fn instant_str(&self, i: &Instant, tz: Option<&TimeZone>) -> TemporalResult<String> {
        i.to_ixdtf_string_with_provider(tz, ToStringRoundingOptions::default(), self.0)
    }
    fn pdt_to_zdt(&self, p: &PlainDateTime, tz: &TimeZone, d: Disambiguation) -> TemporalResult<ZonedDateTime> {
        p.to_zoned_date_time_with_provider(tz, d, self.0)
    }
    fn now(&self, which: u8, tz: TimeZone) -> TemporalResult<()> {
        use temporal_rs::Now;
        let t = temporal_rs::time::EpochNanoseconds::try_from(Now::instant()?.as_i128())?;
        match which % 3 {
            0 => Now::plain_datetime_iso_with_provider_and_system_info(t, tz, self.0).map(|_| ()),
            1 => Now::plain_date_iso_with_provider_and_system_info(t, tz, self.0).map(|_| ()),
            _ => Now::plain_time_iso_with_provider_and_system_info(t, tz, self.0).map(|_| ()),
        }
    }
}

// ------------------------------------------------------------------------------------------------
// rendering

fn zdt_str(z: &ZonedDateTime) -> String {
    format!(
        "ZDT({}ns {} {})",
        z.epoch_nanoseconds().as_i128(),
        z.timezone().identifier().unwrap_or_else(|e| err_str(&e)),
        z.calendar().identifier()
    )
}
fn dur_str(d: &Duration) -> String {
    format!("Dur{:?}", duration_fields(d))
}
fn rel_str(r: &RelativeTo) -> String {
    match r {
        RelativeTo::PlainDate(d) => format!("Rel(PlainDate {}-{}-{} {})", d.iso_year(), d.iso_month(), d.iso_day(), d.calendar().identifier()),
        RelativeTo::ZonedDateTime(z) => format!("Rel({})", zdt_str(z)),
    }
}

/// a time zone value from an identifier: offsets through the parser, names verbatim (what
/// `TimeZone::try_from_identifier_str` does for names; no provider involved)
pub fn tz_of(id: &str) -> TemporalResult<TimeZone> {
    TimeZone::try_from_identifier_str(id)
}

fn ok<T>(r: TemporalResult<T>, f: impl FnOnce(T) -> String) -> String {
    match r {
        Ok(v) => f(v),
        Err(e) => err_str(&e),
    }
}

fn access(api: &impl Api, z: &ZonedDateTime, acc: Acc) -> String {
    match acc {
        Acc::Year => ok(api.year(z), |v| format!("year={v}")),
        Acc::Month => ok(api.month(z), |v| format!("month={v}")),
        Acc::MonthCode => ok(api.month_code(z), |v| format!("month_code={}", v.as_str())),
        Acc::Day => ok(api.day(z), |v| format!("day={v}")),
        Acc::Hour => ok(api.hour(z), |v| format!("hour={v}")),
        Acc::Minute => ok(api.minute(z), |v| format!("minute={v}")),
        Acc::Second => ok(api.second(z), |v| format!("second={v}")),
        Acc::Millisecond => ok(api.millisecond(z), |v| format!("millisecond={v}")),
        Acc::Offset => ok(api.offset(z), |v| format!("offset={v}")),
        Acc::OffsetNs => ok(api.offset_nanoseconds(z), |v| format!("offset_ns={v}")),
        Acc::Era => ok(api.era(z), |v| format!("era={:?}", v.map(|s| s.to_string()))),
        Acc::EraYear => ok(api.era_year(z), |v| format!("era_year={v:?}")),
        Acc::DayOfWeek => ok(api.day_of_week(z), |v| format!("day_of_week={v}")),
        Acc::DayOfYear => ok(api.day_of_year(z), |v| format!("day_of_year={v}")),
        Acc::WeekOfYear => ok(api.week_of_year(z), |v| format!("week_of_year={v:?}")),
        Acc::YearOfWeek => ok(api.year_of_week(z), |v| format!("year_of_week={v:?}")),
        Acc::DaysInWeek => ok(api.days_in_week(z), |v| format!("days_in_week={v}")),
        Acc::DaysInMonth => ok(api.days_in_month(z), |v| format!("days_in_month={v}")),
        Acc::DaysInYear => ok(api.days_in_year(z), |v| format!("days_in_year={v}")),
        Acc::MonthsInYear => ok(api.months_in_year(z), |v| format!("months_in_year={v}")),
        Acc::InLeapYear => ok(api.in_leap_year(z), |v| format!("in_leap_year={v}")),
        Acc::HoursInDay => ok(api.hours_in_day(z), |v| format!("hours_in_day={v}")),
        Acc::StartOfDay => ok(api.start_of_day(z), |v| format!("start_of_day={}", zdt_str(&v))),
        Acc::ToPlainDate => ok(api.to_plain_date(z), |v| format!("plain_date={}-{}-{}", v.iso_year(), v.iso_month(), v.iso_day())),
        Acc::ToPlainTime => ok(api.to_plain_time(z), |v| format!("plain_time={}", crate::conv::time_ns(&v))),
        Acc::ToPlainDateTime => ok(api.to_plain_datetime(z), |v| format!("plain_datetime={:?}", crate::conv::dt_of(&v))),
        Acc::Ixdtf => ok(api.ixdtf(z), |v| format!("ixdtf={v}")),
        Acc::Display => match api.display(z) {
            Ok(s) => format!("display={s}"),
            Err(e) => format!("display!{e}"),
        },
        Acc::TransitionNext => ok(api.transition(z, TransitionDirection::Next), |v| format!("next={:?}", v.as_ref().map(zdt_str))),
        Acc::TransitionPrev => ok(api.transition(z, TransitionDirection::Previous), |v| format!("prev={:?}", v.as_ref().map(zdt_str))),
    }
}

fn zdt_new(t: &T, zone: &str) -> TemporalResult<ZonedDateTime> {
    ZonedDateTime::try_new(t.ns(), iso(), tz_of(zone)?)
}

fn try_exec(api: &impl Api, c: &Call) -> Result<String, TemporalError> {
    Ok(match c {
        Call::ZdtFromStr { s, dis, off, then } => {
            let z = api.from_str(s, disamb(*dis), offdis(*off))?;
            format!("{} -> {}", zdt_str(&z), access(api, &z, *then))
        }
        Call::ZdtGet { t, zone, acc } => {
            let z = zdt_new(t, zone)?;
            access(api, &z, *acc)
        }
        Call::ZdtAdd { t, zone, dur, sub, reject } => {
            let z = zdt_new(t, zone)?;
            let d = Duration::from_str(dur)?;
            let o = if *reject { Some(ArithmeticOverflow::Reject) } else { None };
            let r = if *sub { api.subtract(&z, &d, o) } else { api.add(&z, &d, o) }?;
            zdt_str(&r)
        }
        Call::ZdtDiff { t, zone, t2, zone2, largest, since } => {
            let a = zdt_new(t, zone)?;
            let b = zdt_new(t2, zone2)?;
            let s = diff_settings(largest.map(unit), None, None, None);
            let d = if *since { api.since(&a, &b, s) } else { api.until(&a, &b, s) }?;
            dur_str(&d)
        }
        Call::ZdtWithTime { t, zone, sec } => {
            let z = zdt_new(t, zone)?;
            let pt = crate::conv::plain_time((*sec % 86400) as i128 * 1_000_000_000)?;
            zdt_str(&api.with_plain_time(&z, pt)?)
        }
        Call::RelTo { rel } => rel_str(&api.relative_to(rel)?),
        Call::DurRound { dur, rel, largest, smallest } => {
            let d = Duration::from_str(dur)?;
            let r = api.relative_to(rel)?;
            let o = round_options(largest.map(unit), smallest.map(unit), None, None);
            dur_str(&api.dur_round(&d, o, Some(r))?)
        }
        Call::DurTotal { dur, rel, unit: u } => {
            let d = Duration::from_str(dur)?;
            let r = api.relative_to(rel)?;
            let v = api.dur_total(&d, unit(*u), Some(r))?;
            format!("total={:?}", v.as_inner())
        }
        Call::DurCompare { a, b, rel } => {
            let da = Duration::from_str(a)?;
            let db = Duration::from_str(b)?;
            let r = api.relative_to(rel)?;
            format!("compare={:?}", api.dur_compare(&da, &db, Some(r))?)
        }
        Call::InstantStr { t, zone } => {
            let i = Instant::try_new(t.ns())?;
            let tz = match zone {
                Some(z) => Some(tz_of(z)?),
                None => None,
            };
            format!("instant={}", api.instant_str(&i, tz.as_ref())?)
        }
        Call::PdtToZdt { y, mo, d, h, mi, sec, zone, dis } => {
            let p = PlainDateTime::try_new(*y, *mo, *d, *h, *mi, *sec, 0, 0, 0, iso())?;
            let tz = tz_of(zone)?;
            zdt_str(&api.pdt_to_zdt(&p, &tz, disamb(*dis))?)
        }
        Call::Now { which, zone } => {
            let tz = tz_of(zone)?;
            api.now(*which, tz)?;
            "now=ok".to_string()
        }
        Call::InjectPanic => unreachable!("InjectPanic is executed by exec_global / expected_of"),
    })
}

/// Canonical result text of a call: value, `Err(Kind:message)` or `Panic(panic@file:line: message)`.
pub fn exec(api: &impl Api, c: &Call) -> String {
    match guard(|| try_exec(api, c)) {
        Ok(Ok(s)) => s,
        Ok(Err(e)) => err_str(&e),
        Err(p) => format!("Panic({p})"),
    }
}

/// The call through the convenience API (process-wide provider).
pub fn exec_global(c: &Call) -> String {
    if let Call::InjectPanic = c {
        return match guard(temporal_rs::verif_hooks::panic_while_holding_tz_provider) {
            Ok(()) => "Ok(hook returned)".into(),
            Err(p) if p.contains("injected panic while holding TZ_PROVIDER") => INJECTED.into(),
            Err(p) => format!("Panic({p})"),
        };
    }
    exec(&Global, c)
}

/// The call alone: the core API against a fresh `FsTzdbProvider` that nothing else has used.
pub fn exec_isolated(c: &Call) -> String {
    if let Call::InjectPanic = c {
        return INJECTED.into();
    }
    let p = temporal_rs::tzdb::FsTzdbProvider::default();
    exec(&WithProv(&p), c)
}

// ------------------------------------------------------------------------------------------------
// result comparison

pub fn err_kind(s: &str) -> Option<&str> {
    let rest = s.strip_prefix("Err(")?;
    Some(rest.split(':').next().unwrap_or(rest))
}
pub fn panic_loc(s: &str) -> Option<&str> {
    let rest = s.strip_prefix("Panic(")?;
    Some(rest.split(": ").next().unwrap_or(rest))
}
pub fn is_lock_error(s: &str) -> bool {
    s.contains(LOCK_MSG)
}
/// what makes a result "a panic inside the call" (incl. Display's `expect`)
pub fn is_panic(s: &str) -> bool {
    s.starts_with("Panic(") || s.contains("display!")
}
pub fn is_failure(s: &str) -> bool {
    s.starts_with("Err(") || is_panic(s)
}

/// Same result: equal text; errors are compared by kind (messages shown, not compared), panics by
/// location. The lock error never equals anything (not even itself).
pub fn same(expected: &str, actual: &str) -> bool {
    if is_lock_error(actual) {
        return false;
    }
    // `Display` on a value whose string cannot be produced: the impl panics (`expect`) where the
    // provider API returns the error; both mean "Display failed" (that it panics is C03's subject)
    if let (Some((pa, _)), Some((pb, _))) = (expected.split_once("display!"), actual.split_once("display!")) {
        return pa == pb;
    }
    match (err_kind(expected), err_kind(actual)) {
        (Some(a), Some(b)) => return a == b,
        (None, None) => {}
        _ => return false,
    }
    match (panic_loc(expected), panic_loc(actual)) {
        (Some(a), Some(b)) => return a == b,
        (None, None) => {}
        _ => return false,
    }
    // composite results ("ZDT(..) -> Err(..)"): compare the prefix exactly and the tail by kind
    if let (Some((pa, ta)), Some((pb, tb))) = (expected.split_once(" -> "), actual.split_once(" -> ")) {
        if err_kind(ta).is_some() || err_kind(tb).is_some() {
            return pa == pb && err_kind(ta) == err_kind(tb);
        }
    }
    expected == actual
}
