//! C13 - wall clock <-> instant conversion follows the zone's offsets and the options.

use crate::chk;
use crate::conv::*;
use crate::refm::civil::*;
use crate::refm::dateadd::Dt;
use crate::refm::fmt::{self, Prec};
use crate::refm::round::{round_int, Mode};
use crate::refm::tz::{Disamb, Zone, S};
use crate::run::*;
use crate::tzp::{AnyProvider, TableProvider};
use proptest::prelude::*;
use serde::{Deserialize, Serialize};
use serde_json::Value;
use std::str::FromStr;
use temporal_rs::error::ErrorKind;
use temporal_rs::options::{Disambiguation, OffsetDisambiguation};
use temporal_rs::partial::{PartialDate, PartialTime, PartialZonedDateTime};
use temporal_rs::{TimeZone, UtcOffset, ZonedDateTime};

const DAY: i128 = NS_PER_DAY;

#[derive(Serialize, Deserialize, Debug, Clone, Copy, PartialEq, Eq)]
pub enum OffOpt {
    Use,
    Prefer,
    Ignore,
    Reject,
}
pub fn conv_dis(d: Disamb) -> Disambiguation {
    match d {
        Disamb::Compatible => Disambiguation::Compatible,
        Disamb::Earlier => Disambiguation::Earlier,
        Disamb::Later => Disambiguation::Later,
        Disamb::Reject => Disambiguation::Reject,
    }
}
fn conv_off(o: OffOpt) -> OffsetDisambiguation {
    match o {
        OffOpt::Use => OffsetDisambiguation::Use,
        OffOpt::Prefer => OffsetDisambiguation::Prefer,
        OffOpt::Ignore => OffsetDisambiguation::Ignore,
        OffOpt::Reject => OffsetDisambiguation::Reject,
    }
}

/// how the zone reaches the crate
#[derive(Serialize, Deserialize, Debug, Clone, PartialEq, Eq)]
pub enum ZoneKind {
    /// `TimeZone::UtcOffset` (minutes), no provider involved
    Fixed(i32),
    /// named zone served by the harness provider from this rule table
    Table(Zone),
    /// real IANA zone resolved end to end by the crate's bundled provider; `window` is the part of the zone's
    /// listed TZif transitions (read by the harness's own TZif reader, props/c15/tzif.rs) around the case's point
    /// in time and is what the oracle uses
    Real { name: String, window: Zone },
}
impl ZoneKind {
    pub fn zone(&self) -> Zone {
        match self {
            ZoneKind::Fixed(m) => Zone::fixed("fixed", *m as i64 * 60),
            ZoneKind::Table(z) => z.clone(),
            ZoneKind::Real { window, .. } => window.clone(),
        }
    }
    pub fn timezone(&self) -> TimeZone {
        match self {
            ZoneKind::Fixed(m) => TimeZone::try_from_identifier_str(&fmt::offset_minutes(*m as i64)).expect("offset zone"),
            ZoneKind::Table(z) => TimeZone::IanaIdentifier(z.name.clone()),
            ZoneKind::Real { name, .. } => TimeZone::IanaIdentifier(name.clone()),
        }
    }
    pub fn provider(&self) -> AnyProvider {
        match self {
            ZoneKind::Fixed(_) => AnyProvider::Table(TableProvider::utc_only()),
            ZoneKind::Table(z) => AnyProvider::Table(TableProvider::new(vec![z.clone()])),
            ZoneKind::Real { .. } => AnyProvider::Bundled(crate::tzp::bundled()),
        }
    }
    pub fn ident(&self) -> String {
        match self {
            ZoneKind::Fixed(m) => fmt::offset_minutes(*m as i64),
            ZoneKind::Table(z) => z.name.clone(),
            ZoneKind::Real { name, .. } => name.clone(),
        }
    }
}

#[derive(Serialize, Deserialize, Debug, Clone, Copy, PartialEq, Eq)]
pub enum Given {
    None,
    Z,
    /// explicit offset in seconds
    Offset(i64),
    /// explicit offset with a fractional second (signed nanoseconds, not a whole number of seconds)
    OffsetNs(i128),
}

#[derive(Serialize, Deserialize, Debug, Clone, Copy, PartialEq, Eq)]
pub enum Route {
    /// ZonedDateTime getters of an instant
    Getters,
    /// PlainDateTime::to_zoned_date_time_with_provider
    DateTimeToZoned,
    /// PlainDate::to_zoned_date_time_with_provider(Some(time)) (always compatible)
    DateToZoned,
    /// ZonedDateTime::from_str_with_provider
    Str,
    /// ZonedDateTime::from_partial_with_provider
    Partial,
    /// RelativeTo::try_from_str_with_provider (compatible / reject)
    RelativeToStr,
}

#[derive(Serialize, Deserialize, Debug, Clone)]
pub struct Case {
    pub zone: ZoneKind,
    pub route: Route,
    /// instant (Getters) or wall-clock ns on the local line (other routes)
    pub t: i128,
    pub dis: Disamb,
    pub off: OffOpt,
    pub given: Given,
    /// the harness provider returns the candidate instants in descending order (the provider trait
    /// does not promise an order; the bundled provider happens to return overlaps that way)
    #[serde(default)]
    pub reverse: bool,
}
pub struct Sub;

fn kind_ok(r: &Result<i128, ()>) -> bool {
    r.is_ok()
}

/// the specified answer for a wall time with options
pub fn expected(z: &Zone, wall: i128, given: Given, dis: Disamb, off: OffOpt, match_minutes: bool) -> Result<i128, ()> {
    let r = match given {
        Given::Z => Ok(wall),
        Given::None => z.resolve(wall, dis),
        Given::Offset(_) | Given::OffsetNs(_) => {
            let o_ns = match given {
                Given::Offset(o) => o as i128 * S,
                Given::OffsetNs(n) => n,
                _ => unreachable!(),
            };
            match off {
                OffOpt::Use => Ok(wall - o_ns),
                OffOpt::Ignore => z.resolve(wall, dis),
                OffOpt::Prefer | OffOpt::Reject => {
                    let mut found = None;
                    for c in z.instants(wall) {
                        let co = wall - c;
                        if co == o_ns || (match_minutes && round_int(co, 60 * S, Mode::HalfExpand) == o_ns) {
                            found = Some(c);
                            break;
                        }
                    }
                    match found {
                        Some(c) => Ok(c),
                        None if off == OffOpt::Reject => Err(()),
                        None => z.resolve(wall, dis),
                    }
                }
            }
        }
    };
    match r {
        Ok(v) if instant_in_range(v) => Ok(v),
        _ => Err(()),
    }
}

fn classify(z: &Zone, wall: i128) -> (&'static str, bool) {
    let c = z.instants(wall);
    if c.is_empty() {
        let (ob, oa) = z.gap_offsets(wall).unwrap_or((0, 0));
        if (oa - ob).abs() > 3 * 3600 {
            ("in-gap>3h", true)
        } else {
            ("in-gap", true)
        }
    } else if c.len() > 2 {
        ("in-overlap-3-candidates", true)
    } else if c.len() > 1 {
        ("in-overlap", true)
    } else {
        ("unique", false)
    }
}

impl SubCheck for Sub {
    type Case = Case;
    fn name(&self) -> &'static str {
        "convert"
    }
    fn eval(&self, c: &Case) -> Outcome {
        let z = c.zone.zone();
        let tz = c.zone.timezone();
        let mut prov = c.zone.provider();
        prov.set_reverse(c.reverse);
        let mut o = Outcome::pass();
        if c.reverse {
            o = o.class("provider-candidates-descending");
        }
        o = o.class(match c.zone {
            ZoneKind::Fixed(_) => "zone:fixed-offset",
            ZoneKind::Table(_) => "zone:table",
            ZoneKind::Real { .. } => "zone:real-iana-bundled-provider",
        });
        match c.route {
            Route::Getters => {
                let off = z.offset_at(c.t);
                let wall = c.t + off as i128 * S;
                let (day, ns) = (wall.div_euclid(DAY) as i64, wall.rem_euclid(DAY));
                o = o.class("getters").nontrivial(off % 60 != 0 || off % 3600 != 0 || z.trans.iter().any(|(t, _)| ((*t as i128) * S - c.t).abs() <= 1));
                if off % 60 != 0 {
                    o = o.class("offset-with-seconds");
                }
                let zdt = match ZonedDateTime::try_new(c.t, iso(), tz) {
                    Ok(v) => v,
                    Err(e) => return o.fail("C13/getters/construct", "Ok", err_str(&e)),
                };
                if !datetime_in_range(day, ns) {
                    return o.class("wall-out-of-range");
                }
                let ymd = crate::refm::dateadd::Ymd::from_n(day);
                let (h, mi, s, ms, us, nn) = split_ns(ns);
                macro_rules! g {
                    ($call:expr, $want:expr, $name:expr) => {
                        match $call {
                            Ok(v) => chk!(o, v == $want, format!("C13/getters/{}", $name), $want, v),
                            Err(e) => o = o.fail(format!("C13/getters/{}/error", $name), format!("{:?}", $want), err_str(&e)),
                        }
                    };
                }
                g!(zdt.year_with_provider(&prov), ymd.y as i32, "year");
                g!(zdt.month_with_provider(&prov), ymd.m, "month");
                g!(zdt.day_with_provider(&prov), ymd.d, "day");
                g!(zdt.hour_with_provider(&prov), h, "hour");
                g!(zdt.minute_with_provider(&prov), mi, "minute");
                g!(zdt.second_with_provider(&prov), s, "second");
                g!(zdt.millisecond_with_provider(&prov), ms, "millisecond");
                g!(zdt.microsecond_with_provider(&prov), us, "microsecond");
                g!(zdt.nanosecond_with_provider(&prov), nn, "nanosecond");
                g!(zdt.offset_nanoseconds_with_provider(&prov), off * 1_000_000_000, "offset_nanoseconds");
                g!(zdt.offset_with_provider(&prov), fmt::offset_seconds(off), "offset-string");
                match zdt.to_plain_datetime_with_provider(&prov) {
                    Ok(p) => chk!(o, dt_of(&p) == Dt { day, ns }, "C13/getters/to_plain_datetime", (day, ns), dt_of(&p)),
                    Err(e) => o = o.fail("C13/getters/to_plain_datetime/error", "Ok", err_str(&e)),
                }
                match (zdt.to_plain_date_with_provider(&prov), zdt.to_plain_time_with_provider(&prov)) {
                    (Ok(d), Ok(t)) => chk!(o, ymd_of(&d) == ymd && time_ns(&t) == ns, "C13/getters/to_plain_date+time", (ymd, ns), (ymd_of(&d), time_ns(&t))),
                    _ => o = o.fail("C13/getters/to_plain_date+time/error", "Ok", "Err"),
                }
            }
            _ => {
                let wall = c.t;
                let (day, ns) = (wall.div_euclid(DAY) as i64, wall.rem_euclid(DAY));
                let (cl, nt) = classify(&z, wall);
                o = o.class(cl).nontrivial(nt || c.given != Given::None);
                if ns == 0 && z.instants(wall).is_empty() {
                    o = o.class("wall:skipped-local-midnight");
                }
                let (dis, off, given, match_minutes) = match c.route {
                    Route::DateTimeToZoned => (c.dis, OffOpt::Ignore, Given::None, false),
                    Route::DateToZoned => (Disamb::Compatible, OffOpt::Ignore, Given::None, false),
                    Route::Str => (c.dis, c.off, c.given, true),
                    Route::Partial => (c.dis, c.off, c.given, true),
                    Route::RelativeToStr => (Disamb::Compatible, OffOpt::Reject, c.given, true),
                    Route::Getters => unreachable!(),
                };
                o = o.class(match c.route {
                    Route::DateTimeToZoned => "route:PlainDateTime.toZoned",
                    Route::DateToZoned => "route:PlainDate.toZoned",
                    Route::Str => "route:from_str",
                    Route::Partial => "route:from_partial",
                    _ => "route:RelativeTo.from_str",
                });
                if let Given::OffsetNs(_) = given {
                    o = o.class("given:offset-with-fractional-second");
                }
                if let Given::Offset(_) | Given::OffsetNs(_) = given {
                    o = o.class(match off {
                        OffOpt::Use => "offset:use",
                        OffOpt::Prefer => "offset:prefer",
                        OffOpt::Ignore => "offset:ignore",
                        OffOpt::Reject => "offset:reject",
                    });
                }
                if given == Given::Z {
                    o = o.class("given:Z");
                }
                let want = expected(&z, wall, given, dis, off, match_minutes);
                // the partial route can only carry whole-minute offsets; Temporal matches property-bag offsets
                // exactly, the crate matches them to the minute: candidates with sub-minute offsets are unjudged there
                if c.route == Route::Partial {
                    if let Given::Offset(_) = given {
                        if z.instants(wall).iter().any(|cand| (wall - cand) % (60 * S) != 0) && matches!(off, OffOpt::Prefer | OffOpt::Reject) {
                            o.unjudged = true;
                            o = o.class("unjudged:partial-offset-vs-sub-minute-zone-offset");
                        }
                    }
                }
                let date = crate::refm::dateadd::Ymd::from_n(day);
                let got: Result<i128, temporal_rs::TemporalError> = match c.route {
                    Route::DateTimeToZoned => plain_datetime(Dt { day, ns }).and_then(|p| p.to_zoned_date_time_with_provider(&tz, conv_dis(dis), &prov)).map(|z| z.epoch_nanoseconds().as_i128()),
                    Route::DateToZoned => plain_date(date).and_then(|p| p.to_zoned_date_time_with_provider(tz.clone(), Some(plain_time(ns).unwrap()), &prov)).map(|z| z.epoch_nanoseconds().as_i128()),
                    Route::Str | Route::RelativeToStr => {
                        let mut s = fmt::datetime(day, ns, Prec::Auto);
                        match given {
                            Given::None => {}
                            Given::Z => s.push('Z'),
                            Given::Offset(sec) => s += &fmt::offset_seconds(sec),
                            Given::OffsetNs(n) => {
                                let a = n.abs();
                                let (whole, frac) = (a / S, a % S);
                                let f = format!("{frac:09}");
                                s += &format!("{}{:02}:{:02}:{:02}.{}", if n < 0 { '-' } else { '+' }, whole / 3600, whole / 60 % 60, whole % 60, f.trim_end_matches('0'));
                            }
                        }
                        s += &format!("[{}]", c.zone.ident());
                        if c.route == Route::Str {
                            ZonedDateTime::from_str_with_provider(&s, conv_dis(dis), conv_off(off), &prov).map(|z| z.epoch_nanoseconds().as_i128())
                        } else {
                            match temporal_rs::options::RelativeTo::try_from_str_with_provider(&s, &prov) {
                                Ok(temporal_rs::options::RelativeTo::ZonedDateTime(z)) => Ok(z.epoch_nanoseconds().as_i128()),
                                Ok(_) => Err(temporal_rs::TemporalError::general("not zoned")),
                                Err(e) => Err(e),
                            }
                        }
                    }
                    Route::Partial => {
                        let (h, mi, sec, ms, us, nn) = split_ns(ns);
                        let pd = PartialDate::new().with_year(Some(date.y as i32)).with_month(Some(date.m)).with_day(Some(date.d));
                        let pt = PartialTime::new().with_hour(Some(h)).with_minute(Some(mi)).with_second(Some(sec)).with_millisecond(Some(ms)).with_microsecond(Some(us)).with_nanosecond(Some(nn));
                        let offset = match given {
                            Given::Offset(sec) => Some(UtcOffset::from_str(&fmt::offset_minutes(sec / 60)).expect("offset")),
                            _ => None,
                        };
                        if let Given::OffsetNs(_) = given {
                            o.unjudged = true;
                            return o.class("unjudged:partial-cannot-carry-fractional-offset");
                        }
                        let p = PartialZonedDateTime::new().with_date(pd).with_time(pt).with_offset(offset).with_timezone(Some(tz.clone()));
                        ZonedDateTime::from_partial_with_provider(p, None, Some(conv_dis(dis)), Some(conv_off(off)), &prov).map(|z| z.epoch_nanoseconds().as_i128())
                    }
                    Route::Getters => unreachable!(),
                };
                if o.unjudged {
                    return o;
                }
                let in_gap = cl.starts_with("in-gap");
                match (&want, &got) {
                    (Ok(w), Ok(g)) => {
                        if g != w {
                            // narrow defect models are attached by signature
                            let sig = if in_gap { "C13/convert/gap/mismatch" } else if cl.starts_with("in-overlap") { "C13/convert/overlap/mismatch" } else { "C13/convert/unique/mismatch" };
                            return o.fail(sig, format!("{w}"), format!("{g}"));
                        }
                    }
                    (Err(_), Err(e)) => chk!(o, e.kind() == ErrorKind::Range, "C13/convert/error-kind", "Range", err_str(e)),
                    (Ok(w), Err(e)) => {
                        let sig = if cl == "in-gap>3h" { "C13/convert/gap>3h/error" } else { "C13/convert/unexpected-error" };
                        return o.fail(sig, format!("{w}"), err_str(e));
                    }
                    (Err(_), Ok(g)) => return o.fail("C13/convert/accepted", "RangeError", format!("{g}")),
                }
                let _ = kind_ok(&want);
            }
        }
        o
    }
}

// ------------------------------------------------------------------------------------------
// zones

fn offset_strategy() -> BoxedStrategy<i64> {
    prop_oneof![
        4 => (-15i64..=15).prop_map(|h| h * 3600),
        3 => (-60i64..=60).prop_map(|q| q * 900),
        2 => (-54000i64..=54000).prop_map(|s| s / 60 * 60),
        2 => (-54000i64..=54000),
    ]
    .boxed()
}
fn shift_strategy() -> BoxedStrategy<i64> {
    // magnitudes from one minute to 26 hours, both directions, a share with seconds
    prop_oneof![
        4 => Just(3600i64),
        2 => Just(1800i64),
        2 => (1i64..=180).prop_map(|m| m * 60),
        2 => (3i64..=26).prop_map(|h| h * 3600),
        1 => (60i64..=93600),
        1 => Just(86400i64),
    ]
    .prop_flat_map(|m| prop::bool::ANY.prop_map(move |neg| if neg { -m } else { m }))
    .boxed()
}

/// synthetic rule table: 1..=12 transitions at least 3 days apart, offsets within +-15 h
pub fn syn_zone() -> BoxedStrategy<Zone> {
    (offset_strategy(), -100_000_000_000i64..=90_000_000_000, prop::collection::vec((259_200i64..=400_000_000, shift_strategy()), 1..=12))
        .prop_map(|(initial, t0, steps)| {
            let mut trans = vec![];
            let mut t = t0;
            let mut off = initial;
            for (gap, shift) in steps {
                let mut n = off + shift;
                if n.abs() > 54000 {
                    n = off - shift;
                }
                if n.abs() > 54000 || n == off {
                    t += gap;
                    continue;
                }
                trans.push((t, n));
                off = n;
                t += gap;
            }
            Zone { name: "Test/Synthetic".into(), initial, trans }
        })
        .boxed()
}

/// hand-written tables with the shapes of well-known real zones (the full real rule sets are
/// exercised through the TZif reader in C15 and in the end-to-end class below when present)
pub fn shaped_zones() -> Vec<Zone> {
    vec![
        Zone { name: "Test/NewYorkLike".into(), initial: -17762, trans: vec![(-2717650800, -18000), (1489302000, -14400), (1509861600, -18000), (1520751600, -14400), (1541311200, -18000)] },
        Zone { name: "Test/LordHoweLike".into(), initial: 36000, trans: vec![(1475337600, 39600), (1491059400, 37800), (1506787200, 39600)] },
        Zone { name: "Test/ApiaLike".into(), initial: -36000, trans: vec![(1325239200, 50400), (1333202400, 46800)] },
        Zone { name: "Test/DublinLike".into(), initial: 3600, trans: vec![(1509238800, 0), (1521939600, 3600)] },
        Zone { name: "Test/KolkataLike".into(), initial: 21208, trans: vec![(-2019705670, 21200), (-1176456800, 19800)] },
        Zone { name: "Test/KiritimatiLike".into(), initial: -38400, trans: vec![(788871600, 50400)] },
    ]
}

/// Listed transitions (type 0 + transition table, no footer) of every Zone of the installed tz database, read
/// with the harness's own TZif reader. Empty when /usr/share/zoneinfo is absent.
pub fn real_tables() -> &'static Vec<Zone> {
    static T: std::sync::OnceLock<Vec<Zone>> = std::sync::OnceLock::new();
    T.get_or_init(|| {
        use crate::props::c15::tzif;
        let dir = "/usr/share/zoneinfo";
        let Ok((_, zones, _)) = tzif::tzdata_names(&format!("{dir}/tzdata.zi")) else { return vec![] };
        let mut out = vec![];
        for name in zones {
            let Ok(bytes) = std::fs::read(format!("{dir}/{name}")) else { continue };
            let Ok(f) = tzif::parse_tzif(&bytes) else { continue };
            let trans: Vec<(i64, i64)> = f.times.iter().zip(f.idx.iter()).map(|(t, i)| (*t, f.types[*i].utoff)).collect();
            if trans.len() >= 6 {
                out.push(Zone { name, initial: f.types[0].utoff, trans });
            }
        }
        out
    })
}

/// A window of a real zone around one of its listed transitions: (zone, window table, index of the anchor
/// transition inside the window). The anchor is never one of the last two listed transitions (beyond them the
/// bundled provider evaluates the POSIX footer, whose open defects are C15's findings), changes the offset, and has
/// no other offset change within 3 days (the assumption of this module's oracle).
pub fn real_window(zi: usize, ti: usize) -> Option<(String, Zone, usize)> {
    let tabs = real_tables();
    if tabs.is_empty() {
        return None;
    }
    let z = &tabs[zi % tabs.len()];
    let n = z.trans.len();
    // candidate anchors
    let off_before = |i: usize| if i == 0 { z.initial } else { z.trans[i - 1].1 };
    let ok = |i: usize| {
        i + 2 < n
            && z.trans[i].1 != off_before(i)
            && (i == 0 || z.trans[i].0 - z.trans[i - 1].0 >= 3 * 86400 || z.trans[i - 1].1 == off_before(i - 1) && false)
            && z.trans[i + 1].0 - z.trans[i].0 >= 3 * 86400
            && z.trans[i].0 > -12_000_000_000
    };
    let start = ti % n;
    let i = (0..n).map(|k| (start + k) % n).find(|i| ok(*i))?;
    let lo = i.saturating_sub(3);
    let hi = (i + 3).min(n - 1);
    let window = Zone { name: z.name.clone(), initial: off_before(lo), trans: z.trans[lo..=hi].to_vec() };
    Some((z.name.clone(), window, i - lo))
}

/// two backward changes so close together that their repeated stretches intersect: a wall-clock time there has
/// three matching instants ("the later match" is the last one, not the second). No skipped times in such a zone.
pub fn double_fallback_zone() -> BoxedStrategy<Zone> {
    (-43_200i64..=43_200, proptest::sample::select(vec![1800i64, 3600, 7200]), proptest::sample::select(vec![1800i64, 3600, 5400]), 1i64..=59, -4_000_000_000i64..=4_000_000_000)
        .prop_map(|(o, s1, s2, frac, t0)| {
            let o = o / 900 * 900;
            let d = (s1.min(s2) * frac / 60).max(60);
            Zone { name: "Test/DoubleFallback".into(), initial: o, trans: vec![(t0, o - s1), (t0 + d, o - s1 - s2)] }
        })
        .boxed()
}

/// a repeated stretch and a skipped stretch so close together that a skipped time, moved back (or forward) by the
/// length of the gap, lands on a repeated time: "earlier" must then take the first, "compatible"/"later" the last
/// of the two candidates of the moved reading. Shapes: overlap shortly before the gap, or shortly after it.
pub fn gap_near_overlap_zone() -> BoxedStrategy<Zone> {
    (-36_000i64..=36_000, proptest::sample::select(vec![1800i64, 3600, 7200]), proptest::sample::select(vec![1800i64, 3600, 5400]), 1i64..=59, -4_000_000_000i64..=4_000_000_000, prop::bool::ANY)
        .prop_map(|(o, s1, g, frac, t0, overlap_first)| {
            let o = o / 900 * 900;
            // distance between the two transitions: less than overlap + gap
            let d = ((s1 + g) * frac / 60).max(60);
            if overlap_first {
                Zone { name: "Test/OverlapThenGap".into(), initial: o, trans: vec![(t0, o - s1), (t0 + d, o - s1 + g)] }
            } else {
                Zone { name: "Test/GapThenOverlap".into(), initial: o, trans: vec![(t0, o + g), (t0 + d, o + g - s1)] }
            }
        })
        .boxed()
}

fn zone_kind() -> BoxedStrategy<ZoneKind> {
    let shaped = shaped_zones();
    prop_oneof![
        1 => double_fallback_zone().prop_map(ZoneKind::Table),
        1 => gap_near_overlap_zone().prop_map(ZoneKind::Table),
        2 => (-1439i32..=1439).prop_map(ZoneKind::Fixed),
        1 => proptest::sample::select(vec![0i32, 60, -60, 330, 345, -210, 840, -720, 1439, -1439]).prop_map(ZoneKind::Fixed),
        6 => syn_zone().prop_map(ZoneKind::Table),
        3 => proptest::sample::select(shaped).prop_map(ZoneKind::Table),
        // real zones: the same window once through the harness provider, once end to end through the bundled one
        4 => (any::<u16>(), any::<u16>(), any::<bool>()).prop_map(|(zi, ti, bundled)| match real_window(zi as usize, ti as usize) {
            Some((name, window, _)) if bundled => ZoneKind::Real { name, window },
            Some((_, window, _)) => ZoneKind::Table(window),
            None => ZoneKind::Fixed(0),
        }),
    ]
    .boxed()
}

pub fn case() -> BoxedStrategy<Case> {
    (zone_kind(), 0usize..64, 0u8..8, -172_800i128..=172_800, 0i128..1_000_000_000, 0u8..8, 0u8..4, 0u8..4, 0u8..10, crate::gen::instant_ns())
        .prop_map(|(zone, ti, place, dsec, dns, route, dis, off, gk, uniform)| {
            let z = zone.zone();
            let reverse = route >= 6;
            let route = [Route::Getters, Route::DateTimeToZoned, Route::DateToZoned, Route::Str, Route::RelativeToStr, Route::Partial, Route::DateTimeToZoned, Route::Str][route as usize];
            let dis = [Disamb::Compatible, Disamb::Earlier, Disamb::Later, Disamb::Reject][dis as usize];
            let off = [OffOpt::Use, OffOpt::Prefer, OffOpt::Ignore, OffOpt::Reject][off as usize];
            // pick the instant / wall time: around a transition, or uniform
            let n = z.trans.len();
            let is_real = matches!(zone, ZoneKind::Real { .. });
            let (tr_t, ob, oa) = if n == 0 {
                (0i128, z.initial, z.initial)
            } else {
                let i = ti * n / 64;
                let before = if i == 0 { z.initial } else { z.trans[i - 1].1 };
                (z.trans[i].0 as i128 * S, before, z.trans[i].1)
            };
            let delta = match place {
                0 => -1,
                1 => 0,
                2 => 1,
                3 => dns,                     // just after, sub-second
                4 => dsec * S / 48 + dns,     // within an hour
                5 | 6 => dsec * S + dns,      // within two days
                _ => i128::MAX,               // uniform marker
            };
            let t = if delta == i128::MAX || n == 0 && place > 4 {
                uniform.clamp(-MAX_INSTANT + 2 * DAY, MAX_INSTANT - 2 * DAY)
            } else if route == Route::Getters {
                tr_t + delta
            } else {
                // wall line: anchor at the start of the skipped/repeated interval
                let lo = ob.min(oa) as i128 * S;
                let hi = ob.max(oa) as i128 * S;
                match place % 3 {
                    0 => tr_t + lo + delta,
                    1 => tr_t + hi + delta,
                    _ => tr_t + (lo + hi) / 2 + delta,
                }
            };
            // the wall-clock routes, one case in two where the data allow it: exactly the local midnight that lies strictly
            // inside the skipped stretch of the chosen transition (an explicit 00:00 is an ordinary time there, moved by the
            // gap; only an absent time means "start of day")
            let t = if route != Route::Getters && oa > ob && dns % 2 == 0 {
                let (lo, hi) = (tr_t + ob as i128 * S, tr_t + oa as i128 * S);
                let midnight = (lo.div_euclid(DAY) + 1) * DAY;
                if midnight < hi { midnight } else { t }
            } else {
                t
            };
            let t = t.clamp(-MAX_INSTANT + 2 * DAY, MAX_INSTANT - 2 * DAY);
            // a real zone is only known to the oracle inside its window: stay at least 2 days inside it
            let t = if is_real && n >= 2 {
                let lo = z.trans[0].0 as i128 * S + 2 * DAY;
                let hi = z.trans[n - 1].0 as i128 * S - 2 * DAY;
                if t < lo || t > hi { (tr_t + dsec * S + dns).clamp(lo, hi) } else { t }
            } else {
                t
            };
            let reverse = reverse && !is_real;
            // an explicit offset: right one, rounded to the minute, the other candidate's, wrong, or Z
            let given = if matches!(route, Route::Str | Route::Partial | Route::RelativeToStr) {
                let cands = z.instants(t);
                let o0 = cands.first().map(|c| ((t - c) / S) as i64).unwrap_or(ob);
                let o1 = cands.last().map(|c| ((t - c) / S) as i64).unwrap_or(oa);
                let minute = |s: i64| (round_int(s as i128, 60, Mode::HalfExpand)) as i64;
                match gk {
                    0 | 1 => Given::None,
                    2 => Given::Offset(o0),
                    3 => Given::Offset(o1),
                    4 => Given::Offset(minute(o0)),
                    5 => Given::Offset(minute(o1) + 60),
                    6 => Given::Offset((o0 + 3600).clamp(-86340, 86340)),
                    8 | 9 if route != Route::Partial => {
                        // the right (or the other candidate's) offset plus / minus a fraction of a second
                        let base = if gk == 8 { o0 } else { o1 } as i128 * S;
                        let frac = [1, 500_000_000, 999_999_999, dns.max(1)][(ti % 4) as usize];
                        let n = if base < 0 || base == 0 && place % 2 == 0 { base - frac } else { base + frac };
                        if n.abs() < 86_400 * S && n % S != 0 { Given::OffsetNs(n) } else { Given::Offset(o0) }
                    }
                    _ => {
                        if route != Route::Partial {
                            Given::Z
                        } else {
                            Given::Offset(minute(o1))
                        }
                    }
                }
            } else {
                Given::None
            };
            // keep explicit offsets inside +-23:59(:59)
            let given = match given {
                Given::Offset(s) => Given::Offset(s.clamp(-86399, 86399)),
                g => g,
            };
            let given = match (route, given) {
                (Route::Partial, Given::OffsetNs(_)) => Given::None,
                (_, g) => g,
            };
            // the partial route carries whole minutes only
            let given = match (route, given) {
                (Route::Partial, Given::Offset(s)) => Given::Offset(s / 60 * 60),
                (_, g) => g,
            };
            Case { zone, route, t, dis, off, given, reverse }
        })
        .boxed()
}

pub fn run(ctx: &mut Ctx) {
    ctx.rule = "zones: every kind of fixed offset (TimeZone::UtcOffset), synthetic rule tables (1-12 transitions >= 3 days apart anywhere in +-1e11 s, offsets within +-15 h incl. non-zero seconds, shifts from 1 minute to 26 h in both directions) and hand-written tables shaped like New York / Lord Howe / Apia (24 h skip) / Dublin (negative DST) / Kolkata (LMT seconds) / Kiritimati, served through the harness TimeZoneProvider; plus windows (anchor transition +-3 neighbours) of every real IANA zone's listed TZif transitions (harness reader), half of them served by the harness provider, half resolved end to end by the crate's bundled provider. points: within +-2 days of a transition (at the edges +-1 ns, inside gaps and overlaps) or uniform. routes: ZonedDateTime getters of an instant; PlainDateTime/PlainDate.toZonedDateTime; from_str and from_partial with an explicit offset (correct, rounded to the minute, the other candidate's, wrong, or - strings only - with a fractional second, both signs) or Z x 4 disambiguations x 4 offset options. oracle: brute force over the rule table + Temporal's disambiguation/offset rules. non-trivial = wall time inside a gap or overlap, explicit offset or Z present, shift > 3 h, offset with non-zero minutes/seconds.".into();
    ctx.assumptions = vec![
        "provider contract: candidates ascending; transition_epoch = second at which the offset in force began (tzp.rs)".into(),
        "rule sets whose gaps interact with another transition (transitions closer than 3 days) are excluded by construction; the exceptions are the double-fallback class (two backward changes whose repeated stretches intersect: three candidates, no skipped time) and the gap-near-overlap class (a skipped time moved by the gap length lands on a repeated time); the oracle follows DisambiguatePossibleEpochNanoseconds literally (+-1 day probes)".into(),
    ];
    ctx.run_prop(&Sub, &case, ctx.tier.pick(600_000, 20_000_000));
    // the reading printed by to-string with rounding options is the reading of the *rounded* instant (date-time and
    // offset both): C07's rule-zone string cases, whose only transition sits on the upper neighbouring multiple
    ctx.run_prop(&crate::props::c07::PubSub, &crate::props::c07::zoned_rule_string_case, ctx.tier.pick(100_000, 3_000_000));
}

pub fn replay(ctx: &mut Ctx, sub: &str, case: &Value) -> bool {
    match sub {
        "convert" => ctx.replay_case(&Sub, case),
        "public" => ctx.replay_case(&crate::props::c07::PubSub, case),
        _ => false,
    }
}
