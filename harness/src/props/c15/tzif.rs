//! Independent TZif (RFC 8536) reader and POSIX-TZ footer evaluator: the oracle of C15.
//!
//! Nothing in here uses the `tzif` crate or `temporal_rs`. A zone file is read as
//!   v1 header + v1 data block (skipped by size) | v2+ header + 64-bit data block | "\n" TZ "\n"
//! and queried per RFC 8536 section 3.2:
//!   * before the first transition: time type 0;
//!   * between transitions: the type of the latest transition <= t (the transition second itself
//!     already belongs to the new type);
//!   * after the last transition (or when there is none): the footer TZ string when present and
//!     non-empty, else the last transition's type (type 0 when there is none).
//! wall -> instants is brute force over every interval of an explicit table (`refm::tz::Zone`),
//! the table being the listed transitions followed by the footer's rule transitions expanded for
//! the years around the query.

use crate::refm::civil::{dim, from_days, to_days, weekday};
use crate::refm::tz::{Zone, S};

#[derive(Clone, Debug, PartialEq, Eq)]
pub struct TtInfo {
    pub utoff: i64,
    pub isdst: bool,
    pub abbr: String,
}

#[derive(Clone, Debug)]
pub struct TzFile {
    pub version: u8,
    pub times: Vec<i64>,
    pub idx: Vec<usize>,
    pub types: Vec<TtInfo>,
    pub footer: String,
}

fn be_u32(b: &[u8], o: usize) -> Result<u32, String> {
    b.get(o..o + 4).map(|x| u32::from_be_bytes([x[0], x[1], x[2], x[3]])).ok_or_else(|| format!("short file at {o}"))
}
fn be_i64(b: &[u8], o: usize) -> Result<i64, String> {
    b.get(o..o + 8)
        .map(|x| i64::from_be_bytes([x[0], x[1], x[2], x[3], x[4], x[5], x[6], x[7]]))
        .ok_or_else(|| format!("short file at {o}"))
}

struct Header {
    version: u8,
    isutcnt: usize,
    isstdcnt: usize,
    leapcnt: usize,
    timecnt: usize,
    typecnt: usize,
    charcnt: usize,
}

fn header(b: &[u8], o: usize) -> Result<Header, String> {
    if b.get(o..o + 4) != Some(b"TZif") {
        return Err(format!("no TZif magic at {o}"));
    }
    let version = *b.get(o + 4).ok_or("short header")?;
    Ok(Header {
        version,
        isutcnt: be_u32(b, o + 20)? as usize,
        isstdcnt: be_u32(b, o + 24)? as usize,
        leapcnt: be_u32(b, o + 28)? as usize,
        timecnt: be_u32(b, o + 32)? as usize,
        typecnt: be_u32(b, o + 36)? as usize,
        charcnt: be_u32(b, o + 40)? as usize,
    })
}

/// Parse a TZif v2+ file. Files with leap-second records are refused (the `right/` tree is not
/// part of the domain).
pub fn parse_tzif(b: &[u8]) -> Result<TzFile, String> {
    let h1 = header(b, 0)?;
    if h1.version < b'2' {
        return Err("TZif version 1 file (no 64-bit block)".into());
    }
    let skip = 44 + h1.timecnt * 4 + h1.timecnt + h1.typecnt * 6 + h1.charcnt + h1.leapcnt * 8 + h1.isstdcnt + h1.isutcnt;
    let h = header(b, skip)?;
    if h.leapcnt != 0 {
        return Err("leap-second records present".into());
    }
    if h.typecnt == 0 {
        return Err("no time types".into());
    }
    let mut o = skip + 44;
    let mut times = Vec::with_capacity(h.timecnt);
    for i in 0..h.timecnt {
        times.push(be_i64(b, o + 8 * i)?);
    }
    o += 8 * h.timecnt;
    let mut idx = Vec::with_capacity(h.timecnt);
    for i in 0..h.timecnt {
        let k = *b.get(o + i).ok_or("short type index")? as usize;
        if k >= h.typecnt {
            return Err(format!("type index {k} out of range"));
        }
        idx.push(k);
    }
    o += h.timecnt;
    let chars = b.get(o + 6 * h.typecnt..o + 6 * h.typecnt + h.charcnt).ok_or("short abbreviations")?;
    let mut types = Vec::with_capacity(h.typecnt);
    for i in 0..h.typecnt {
        let p = o + 6 * i;
        let utoff = be_u32(b, p)? as i32 as i64;
        let isdst = *b.get(p + 4).ok_or("short ttinfo")? != 0;
        let ai = *b.get(p + 5).ok_or("short ttinfo")? as usize;
        let tail = chars.get(ai..).ok_or("abbreviation index out of range")?;
        let end = tail.iter().position(|c| *c == 0).unwrap_or(tail.len());
        types.push(TtInfo { utoff, isdst, abbr: String::from_utf8_lossy(&tail[..end]).into_owned() });
    }
    o += 6 * h.typecnt + h.charcnt + h.leapcnt * 12 + h.isstdcnt + h.isutcnt;
    for w in times.windows(2) {
        if w[0] >= w[1] {
            return Err("transition times not strictly ascending".into());
        }
    }
    // footer: NL TZ NL
    let rest = b.get(o..).ok_or("no footer")?;
    if rest.first() != Some(&b'\n') {
        return Err("footer does not start with a newline".into());
    }
    let end = rest[1..].iter().position(|c| *c == b'\n').ok_or("footer not terminated")?;
    let footer = String::from_utf8(rest[1..1 + end].to_vec()).map_err(|_| "footer not ASCII")?;
    Ok(TzFile { version: h.version, times, idx, types, footer })
}

// ---------------------------------------------------------------------------------------------
// POSIX TZ strings (the proleptic format of the footer, RFC 8536 3.3 + the v3 time extension)

#[derive(Clone, Copy, Debug, PartialEq, Eq)]
pub enum DayRule {
    /// Jn: 1..=365, February 29 is never counted
    J(i64),
    /// n: 0..=365, zero-based day of year, February 29 counted in leap years
    N(i64),
    /// Mm.w.d: weekday d (0 = Sunday) of week w (1..=5, 5 = last) of month m
    M { m: u8, w: u8, d: u8 },
}

#[derive(Clone, Copy, Debug, PartialEq, Eq)]
pub struct Rule {
    pub day: DayRule,
    /// seconds after local midnight of that day, -167 h ..= 167 h
    pub time: i64,
}

#[derive(Clone, Debug, PartialEq, Eq)]
pub struct Dst {
    pub abbr: String,
    /// seconds east of UTC
    pub off: i64,
    pub start: Rule,
    pub end: Rule,
}

#[derive(Clone, Debug, PartialEq, Eq)]
pub struct PosixTz {
    pub std_abbr: String,
    /// seconds east of UTC (the string itself counts west)
    pub std_off: i64,
    pub dst: Option<Dst>,
}

struct P<'a> {
    s: &'a [u8],
    i: usize,
}
impl<'a> P<'a> {
    fn peek(&self) -> Option<u8> {
        self.s.get(self.i).copied()
    }
    fn eat(&mut self, c: u8) -> bool {
        if self.peek() == Some(c) {
            self.i += 1;
            true
        } else {
            false
        }
    }
    fn name(&mut self) -> Result<String, String> {
        let st = self.i;
        if self.eat(b'<') {
            while let Some(c) = self.peek() {
                if c == b'>' {
                    break;
                }
                if !(c.is_ascii_alphanumeric() || c == b'+' || c == b'-') {
                    return Err(format!("bad character in quoted name at {}", self.i));
                }
                self.i += 1;
            }
            if !self.eat(b'>') {
                return Err("unterminated <name>".into());
            }
            let n = &self.s[st + 1..self.i - 1];
            if n.len() < 3 {
                return Err("quoted name shorter than 3".into());
            }
            Ok(String::from_utf8_lossy(n).into_owned())
        } else {
            while self.peek().is_some_and(|c| c.is_ascii_alphabetic()) {
                self.i += 1;
            }
            if self.i - st < 3 {
                return Err(format!("name shorter than 3 at {st}"));
            }
            Ok(String::from_utf8_lossy(&self.s[st..self.i]).into_owned())
        }
    }
    fn num(&mut self, max_digits: usize) -> Result<i64, String> {
        let st = self.i;
        while self.i - st < max_digits && self.peek().is_some_and(|c| c.is_ascii_digit()) {
            self.i += 1;
        }
        if st == self.i {
            return Err(format!("number expected at {st}"));
        }
        Ok(std::str::from_utf8(&self.s[st..self.i]).unwrap().parse::<i64>().unwrap())
    }
    /// [+-]hh[:mm[:ss]] -> signed seconds
    fn hms(&mut self, max_h: i64) -> Result<i64, String> {
        let neg = if self.eat(b'-') {
            true
        } else {
            self.eat(b'+');
            false
        };
        let h = self.num(3)?;
        if h > max_h {
            return Err(format!("hours {h} > {max_h}"));
        }
        let mut v = h * 3600;
        if self.eat(b':') {
            let m = self.num(2)?;
            if m > 59 {
                return Err("minutes > 59".into());
            }
            v += m * 60;
            if self.eat(b':') {
                let s = self.num(2)?;
                if s > 59 {
                    return Err("seconds > 59".into());
                }
                v += s;
            }
        }
        Ok(if neg { -v } else { v })
    }
    fn rule(&mut self) -> Result<Rule, String> {
        let day = if self.eat(b'M') {
            let m = self.num(2)?;
            if !self.eat(b'.') {
                return Err("'.' expected in M rule".into());
            }
            let w = self.num(1)?;
            if !self.eat(b'.') {
                return Err("'.' expected in M rule".into());
            }
            let d = self.num(1)?;
            if !(1..=12).contains(&m) || !(1..=5).contains(&w) || !(0..=6).contains(&d) {
                return Err(format!("M{m}.{w}.{d} out of range"));
            }
            DayRule::M { m: m as u8, w: w as u8, d: d as u8 }
        } else if self.eat(b'J') {
            let n = self.num(3)?;
            if !(1..=365).contains(&n) {
                return Err(format!("J{n} out of range"));
            }
            DayRule::J(n)
        } else {
            let n = self.num(3)?;
            if !(0..=365).contains(&n) {
                return Err(format!("day {n} out of range"));
            }
            DayRule::N(n)
        };
        let time = if self.eat(b'/') { self.hms(167)? } else { 7200 };
        Ok(Rule { day, time })
    }
}

pub fn parse_posix(s: &str) -> Result<PosixTz, String> {
    let mut p = P { s: s.as_bytes(), i: 0 };
    let std_abbr = p.name()?;
    let std_off = -p.hms(24)?;
    if p.peek().is_none() {
        return Ok(PosixTz { std_abbr, std_off, dst: None });
    }
    let abbr = p.name()?;
    let off = match p.peek() {
        Some(b',') | None => std_off + 3600,
        _ => -p.hms(24)?,
    };
    if !p.eat(b',') {
        return Err("DST without rules (implementation-defined default) is not accepted".into());
    }
    let start = p.rule()?;
    if !p.eat(b',') {
        return Err("second rule expected".into());
    }
    let end = p.rule()?;
    if p.peek().is_some() {
        return Err(format!("trailing characters at {}", p.i));
    }
    Ok(PosixTz { std_abbr, std_off, dst: Some(Dst { abbr, off, start, end }) })
}

impl Rule {
    /// day number (days since 1970-01-01) the rule names in `year`
    pub fn day_number(&self, year: i64) -> i64 {
        match self.day {
            DayRule::J(n) => {
                // day n of a 365-day year: walk the months of a non-leap year
                let mut rem = n; // 1-based
                let mut m = 1u8;
                const L: [i64; 12] = [31, 28, 31, 30, 31, 30, 31, 31, 30, 31, 30, 31];
                while rem > L[(m - 1) as usize] {
                    rem -= L[(m - 1) as usize];
                    m += 1;
                }
                to_days(year, m, rem as u8)
            }
            DayRule::N(n) => to_days(year, 1, 1) + n,
            DayRule::M { m, w, d } => {
                // first day of the month whose weekday is d, then w-1 weeks later, clamped to the month
                let first = to_days(year, m, 1);
                // refm weekday: 1 = Monday .. 7 = Sunday; rule: 0 = Sunday .. 6 = Saturday
                let mut day = first;
                while (weekday(day) % 7) as u8 != d {
                    day += 1;
                }
                let last = first + dim(year, m) as i64 - 1;
                for _ in 1..w {
                    if day + 7 <= last {
                        day += 7;
                    }
                }
                day
            }
        }
    }
    /// seconds on the local line (as if UTC) of the rule in `year`
    pub fn local_seconds(&self, year: i64) -> i64 {
        self.day_number(year) * 86400 + self.time
    }
}

impl PosixTz {
    /// the (at most two) rule transitions of `year` as (utc second, offset in force from then on)
    pub fn events(&self, year: i64) -> Vec<(i64, i64)> {
        match &self.dst {
            None => vec![],
            Some(d) => {
                // the start rule is read on the standard clock, the end rule on the DST clock
                let a = (d.start.local_seconds(year) - self.std_off, d.off);
                let b = (d.end.local_seconds(year) - d.off, self.std_off);
                let mut v = vec![a, b];
                // at a tie (all-year DST written as 0/0,J365/25) the end comes first
                v.sort_by_key(|e| (e.0, e.1 == d.off));
                v
            }
        }
    }
    /// explicit table for the years y0..=y1 (initial = state before the first event)
    pub fn table(&self, name: &str, y0: i64, y1: i64) -> Zone {
        let Some(d) = &self.dst else {
            return Zone::fixed(name, self.std_off);
        };
        let mut ev: Vec<(i64, i64)> = vec![];
        for y in y0..=y1 {
            ev.extend(self.events(y));
        }
        ev.sort_by_key(|e| (e.0, e.1 == d.off));
        // drop coinciding pairs (no-ops) so that times stay strictly increasing
        let mut trans: Vec<(i64, i64)> = vec![];
        for e in ev {
            if let Some(last) = trans.last_mut() {
                if last.0 == e.0 {
                    last.1 = e.1;
                    continue;
                }
            }
            trans.push(e);
        }
        let initial = if trans.first().map(|e| e.1) == Some(d.off) { self.std_off } else { d.off };
        Zone { name: name.to_string(), initial, trans }
    }
}

pub fn year_of_second(t: i64) -> i64 {
    from_days(t.div_euclid(86400)).0
}

// ---------------------------------------------------------------------------------------------
// the oracle proper

#[derive(Clone, Debug)]
pub struct Oracle {
    pub name: String,
    pub file: TzFile,
    pub posix: Option<PosixTz>,
    /// type 0 + listed transitions + footer transitions up to and including `base_last_year`
    pub base: Zone,
    /// queries whose year is <= this are answered from `base`
    pub base_query_year: i64,
    /// data remarks (e.g. footer inconsistent with the last type)
    pub remarks: Vec<String>,
}

impl Oracle {
    pub fn from_bytes(name: &str, bytes: &[u8]) -> Result<Oracle, String> {
        let file = parse_tzif(bytes)?;
        let posix = if file.footer.is_empty() { None } else { Some(parse_posix(&file.footer)?) };
        let mut remarks = vec![];
        let initial = file.types[0].utoff;
        let mut trans: Vec<(i64, i64)> = file.times.iter().zip(file.idx.iter()).map(|(t, i)| (*t, file.types[*i].utoff)).collect();
        let base_query_year;
        match (&posix, file.times.last().copied()) {
            (Some(p), Some(last)) => {
                let ly = year_of_second(last);
                let ext = p.table(name, ly - 1, ly + 4);
                // what the footer says is in force right at the last listed transition
                let foot_at_last = ext.offset_at(last as i128 * S);
                let listed_at_last = trans.last().unwrap().1;
                if foot_at_last != listed_at_last {
                    remarks.push(format!(
                        "footer '{}' gives {} at the last listed transition {} but its type says {}; the footer is used from that second on (RFC 8536 3.2)",
                        file.footer, foot_at_last, last, listed_at_last
                    ));
                    trans.last_mut().unwrap().1 = foot_at_last;
                }
                for e in ext.trans {
                    if e.0 > last {
                        trans.push(e);
                    }
                }
                base_query_year = ly + 2;
            }
            (Some(p), None) => {
                // no transitions: the footer rules for all time
                if p.dst.is_none() {
                    return Ok(Oracle {
                        name: name.to_string(),
                        base: Zone::fixed(name, p.std_off),
                        file,
                        posix,
                        base_query_year: i64::MAX,
                        remarks,
                    });
                }
                base_query_year = i64::MIN;
            }
            (None, _) => base_query_year = i64::MAX,
        }
        Ok(Oracle { name: name.to_string(), base: Zone { name: name.to_string(), initial, trans }, file, posix, base_query_year, remarks })
    }

    pub fn read(dir: &str, name: &str) -> Result<Oracle, String> {
        let bytes = std::fs::read(format!("{dir}/{name}")).map_err(|e| format!("{name}: {e}"))?;
        Oracle::from_bytes(name, &bytes).map_err(|e| format!("{name}: {e}"))
    }

    /// the explicit table that decides queries of calendar year `year`
    pub fn window(&self, year: i64) -> std::borrow::Cow<'_, Zone> {
        if year <= self.base_query_year {
            std::borrow::Cow::Borrowed(&self.base)
        } else {
            let p = self.posix.as_ref().expect("footer region without footer");
            std::borrow::Cow::Owned(p.table(&self.name, year - 2, year + 2))
        }
    }

    /// offset (seconds east) in force at the instant `t_ns`
    pub fn offset_at(&self, t_ns: i128) -> i64 {
        let y = year_of_second(t_ns.div_euclid(S) as i64);
        self.window(y).offset_at(t_ns)
    }

    /// every instant whose local reading is `wall_ns`, ascending
    pub fn instants(&self, wall_ns: i128) -> Vec<i128> {
        let y = year_of_second(wall_ns.div_euclid(S) as i64);
        self.window(y).instants(wall_ns)
    }

    pub fn last_listed(&self) -> Option<i64> {
        self.file.times.last().copied()
    }

    /// rule transitions (utc second, offset before, offset after) of `year` in the footer region
    pub fn footer_events(&self, year: i64) -> Vec<(i64, i64, i64)> {
        let Some(p) = &self.posix else { return vec![] };
        let Some(d) = &p.dst else { return vec![] };
        let last = self.last_listed().unwrap_or(i64::MIN);
        p.events(year)
            .into_iter()
            .filter(|e| e.0 > last)
            .map(|e| (e.0, if e.1 == d.off { p.std_off } else { d.off }, e.1))
            .collect()
    }
}

/// Zone and Link names of tzdata.zi, in file order (Zones then Links as they appear)
pub fn tzdata_names(path: &str) -> Result<(String, Vec<String>, Vec<(String, String)>), String> {
    let text = std::fs::read_to_string(path).map_err(|e| format!("{path}: {e}"))?;
    let mut version = String::new();
    let mut zones = vec![];
    let mut links = vec![];
    for line in text.lines() {
        if let Some(v) = line.strip_prefix("# version ") {
            version = v.trim().to_string();
        }
        let mut it = line.split_ascii_whitespace();
        match it.next() {
            Some("Z") => {
                if let Some(n) = it.next() {
                    zones.push(n.to_string());
                }
            }
            Some("L") => {
                if let (Some(target), Some(n)) = (it.next(), it.next()) {
                    links.push((n.to_string(), target.to_string()));
                }
            }
            _ => {}
        }
    }
    Ok((version, zones, links))
}

// ---------------------------------------------------------------------------------------------
// self-tests (hand-computed vectors; the CPython cross-check lives in the parent module)

pub fn self_test() -> Result<u64, String> {
    let mut n = 0u64;
    let ny = parse_posix("EST5EDT,M3.2.0,M11.1.0")?;
    // 2040: second Sunday of March = 11th, first Sunday of November = 4th
    let ev = ny.events(2040);
    let want = vec![(to_days(2040, 3, 11) * 86400 + 7200 + 18000, -14400), (to_days(2040, 11, 4) * 86400 + 7200 + 14400, -18000)];
    if ev != want {
        return Err(format!("NY 2040 events {ev:?} want {want:?}"));
    }
    n += 1;
    let dub = parse_posix("IST-1GMT0,M10.5.0,M3.5.0/1")?;
    // negative DST: "DST" (GMT, +0) starts last Sunday of October 02:00 IST = 01:00Z, ends last Sunday of March 01:00 GMT
    let ev = dub.events(2039);
    let want = vec![(to_days(2039, 3, 27) * 86400 + 3600, 3600), (to_days(2039, 10, 30) * 86400 + 3600, 0)];
    if ev != want {
        return Err(format!("Dublin 2039 events {ev:?} want {want:?}"));
    }
    n += 1;
    let gaza = parse_posix("EET-2EEST,M3.4.4/50,M10.4.4/50")?;
    // 4th Thursday of March 2040 = 22nd, +50 h = Saturday 24th 02:00 EET = 00:00Z
    let ev = gaza.events(2040);
    if ev[0] != (to_days(2040, 3, 24) * 86400, 10800) {
        return Err(format!("Gaza 2040 start {:?}", ev[0]));
    }
    n += 1;
    let nuuk = parse_posix("<-02>2<-01>,M3.5.0/-1,M10.5.0/0")?;
    // last Sunday of March 2040 = 25th, -1 h = Saturday 24th 23:00 -02 = 25th 01:00Z
    let ev = nuuk.events(2040);
    if ev[0] != (to_days(2040, 3, 25) * 86400 + 3600, -3600) || nuuk.dst.as_ref().unwrap().off != -3600 {
        return Err(format!("Nuuk 2040 start {:?}", ev[0]));
    }
    n += 1;
    let lh = parse_posix("<+1030>-10:30<+11>-11,M10.1.0,M4.1.0")?;
    if lh.std_off != 37800 || lh.dst.as_ref().unwrap().off != 39600 {
        return Err("Lord Howe offsets".into());
    }
    n += 1;
    // J and n forms: J60 is always March 1; 59 is Feb 29 in leap years, March 1 otherwise
    let j = parse_posix("AAA3BBB,J60/0,J365/25")?;
    let d = j.dst.as_ref().unwrap();
    if d.start.day_number(2040) != to_days(2040, 3, 1) || d.start.day_number(2041) != to_days(2041, 3, 1) {
        return Err("J60".into());
    }
    if d.end.day_number(2040) != to_days(2040, 12, 31) || d.end.time != 25 * 3600 {
        return Err("J365/25".into());
    }
    let z = parse_posix("AAA3BBB,59,300")?;
    let d = z.dst.as_ref().unwrap();
    if d.start.day_number(2040) != to_days(2040, 2, 29) || d.start.day_number(2041) != to_days(2041, 3, 1) {
        return Err("n form".into());
    }
    n += 3;
    // all-year DST: -03 standard, -02 "DST" for ever
    let perm = parse_posix("XXX3<-02>,0/0,J365/25")?;
    let tab = perm.table("perm", 2040, 2044);
    for t in [to_days(2041, 1, 1) * 86400 - 1, to_days(2042, 1, 1) * 86400 + 3 * 3600, to_days(2042, 7, 1) * 86400] {
        if tab.offset_at(t as i128 * S) != -7200 {
            return Err(format!("permanent DST at {t}"));
        }
    }
    n += 1;
    for bad in ["", "AB3", "EST5EDT", "EST5EDT,M3.2.0", "EST5EDT,M13.2.0,M11.1.0", "EST5EDT,M3.2.0,M11.1.0x", "<+1>-1", "EST25"] {
        if parse_posix(bad).is_ok() {
            return Err(format!("accepted bad TZ string {bad:?}"));
        }
        n += 1;
    }
    Ok(n)
}
