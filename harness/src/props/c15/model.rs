//! Defect models for C15.
//!
//! A failing case gets a *narrow* signature only if the observed wrong answer is exactly the value
//! predicted by the correct algorithm with a set of **named** defects injected. The models below are
//! the correct lookup (instant -> offset, wall -> instants) written in the shape of the code under
//! test, with one switch per root cause. For a failing case the smallest set of switches whose
//! prediction equals the observed answer is searched (all subsets, by size); the signature is the
//! name of the highest-priority switch in that set. If the model with *no* switch does not agree
//! with the oracle for the input (so the model is not applicable), or if no set reproduces the
//! observed answer, the case keeps the generic signature and is a VIOLATION.
//!
//! The `src/tzdb.rs:<line>` references in the switch comments are positions in the pinned commit (before the
//! `fix:` commits); several of the switches describe defects that have since been repaired and can no longer fire.

use super::tzif::{DayRule, Oracle, PosixTz, Rule};
use super::Ans;
use crate::refm::civil::{from_days, is_leap, to_days};
use crate::refm::tz::S;

// ---- switches -------------------------------------------------------------------------------

/// ns -> s conversion truncates toward zero instead of flooring (src/tzdb.rs:662, :689)
pub const T: u16 = 1 << 0;
/// `Tzif::get`: an exact hit on a transition second uses `idx - 1` (src/tzdb.rs:219)
pub const E: u16 = 1 << 1;
/// `Tzif::get`: before the first transition the first transition's type is used, not type 0 (:234)
pub const F: u16 = 1 << 2;
/// footer, offset path: `epoch_days_for_year(year) * 86400` in i32 (src/tzdb.rs:382)
pub const O: u16 = 1 << 3;
/// footer: rule dates compared as (month, day/7+1, weekday) tuples (`Mwd`, src/tzdb.rs:527-560)
pub const L: u16 = 1 << 4;
/// footer: day of month computed with the leap flag of `seconds` read as milliseconds (src/utils.rs:135-138)
pub const Y: u16 = 1 << 5;
/// footer, offset path: on the rule's day the change is placed at `rule.time - dst.offset` (src/tzdb.rs:508, :514)
pub const K: u16 = 1 << 6;
/// footer: the rule's time of day is only looked at on the rule's nominal day (times < 0 h, >= 24 h,
/// stretches reaching across midnight, UTC day != local day are lost)
pub const H: u16 = 1 << 7;
/// wall path: local seconds are binary-searched in the UTC transition table, the pair is then guessed
/// from the sign of the offsets; exact hits / index 0 / past the end are taken at face value (src/tzdb.rs:271-309)
pub const A: u16 = 1 << 8;
/// wall path: skipped vs repeated decided by the `is_dst` flag of the later record (src/tzdb.rs:320-321)
pub const B: u16 = 1 << 9;
/// wall path: `current_diff <= initial.utoff` (src/tzdb.rs:322): the first second after a repeated stretch keeps the old offset
pub const C: u16 = 1 << 10;
/// wall path, footer: outside the skipped/repeated stretch the whole rule day already has the new state (src/tzdb.rs:490-497)
pub const D: u16 = 1 << 11;
/// wall path, footer: skipped vs repeated decided by the rule's role (start -> skipped, end -> repeated) (src/tzdb.rs:478-485)
pub const R: u16 = 1 << 12;

pub const SIG_T: &str = "C15/seconds/negative-sub-second-truncated-toward-zero";
pub const SIG_E: &str = "C15/offset/exact-transition-second-uses-previous-type";
pub const SIG_F: &str = "C15/offset/before-first-transition-uses-first-transition-type";
pub const SIG_O: &str = "C15/offset/footer-year-epoch-i32-overflow-panic";
pub const SIG_L: &str = "C15/footer/rule-date-compared-as-month-week-weekday-tuple";
pub const SIG_Y: &str = "C15/footer/day-of-month-leap-flag-from-seconds-read-as-ms";
pub const SIG_K: &str = "C15/offset/footer-rule-day-threshold-subtracts-dst-offset";
pub const SIG_H: &str = "C15/footer/rule-time-confined-to-nominal-day";
pub const SIG_A: &str = "C15/wall/local-seconds-searched-in-utc-transition-table";
pub const SIG_B: &str = "C15/wall/skipped-vs-repeated-decided-by-isdst-flag";
pub const SIG_C: &str = "C15/wall/first-second-after-repeated-stretch-keeps-old-offset";
pub const SIG_D: &str = "C15/wall/footer-rule-day-has-new-state-from-midnight";
pub const SIG_R: &str = "C15/wall/footer-skipped-vs-repeated-decided-by-rule-role";

const OFFSET_FLAGS: [u16; 8] = [O, E, F, L, K, Y, H, T];
const OFFSET_PRIORITY: [(u16, &str); 8] = [(Y, SIG_Y), (H, SIG_H), (K, SIG_K), (L, SIG_L), (E, SIG_E), (F, SIG_F), (O, SIG_O), (T, SIG_T)];
const WALL_FLAGS: [u16; 9] = [A, C, B, L, D, R, Y, H, T];
const WALL_PRIORITY: [(u16, &str); 9] =
    [(Y, SIG_Y), (H, SIG_H), (R, SIG_R), (A, SIG_A), (B, SIG_B), (C, SIG_C), (L, SIG_L), (D, SIG_D), (T, SIG_T)];

fn has(f: u16, b: u16) -> bool {
    f & b != 0
}

/// all subsets of `flags`, smallest first (stable order inside a size), without combinations that
/// are not meaningful: Y refines L; H only exists without L
fn subsets_uncached(flags: &[u16]) -> Vec<u16> {
    let n = flags.len();
    let mut v: Vec<u16> = (0u32..1 << n)
        .map(|m| (0..n).filter(|i| m >> i & 1 == 1).fold(0u16, |a, i| a | flags[i]))
        .filter(|s| !(has(*s, Y) && !has(*s, L)) && !(has(*s, H) && has(*s, L)))
        .collect();
    v.sort_by_key(|s| s.count_ones());
    v
}

fn offset_subsets() -> &'static [u16] {
    static V: std::sync::OnceLock<Vec<u16>> = std::sync::OnceLock::new();
    V.get_or_init(|| subsets_uncached(&OFFSET_FLAGS))
}
fn wall_subsets() -> &'static [u16] {
    static V: std::sync::OnceLock<Vec<u16>> = std::sync::OnceLock::new();
    V.get_or_init(|| subsets_uncached(&WALL_FLAGS))
}

// ---- shared pieces --------------------------------------------------------------------------

const CUM: [i64; 12] = [0, 31, 59, 90, 120, 151, 181, 212, 243, 273, 304, 334];

#[derive(Clone, Copy)]
struct Footer<'a> {
    p: &'a PosixTz,
    dst_off: i64,
    start: Rule,
    end: Rule,
}

fn footer_of(o: &Oracle) -> Option<Result<Footer<'_>, i64>> {
    // None: no footer; Some(Err(std)): footer without DST; Some(Ok(..)): DST rules
    let p = o.posix.as_ref()?;
    Some(match &p.dst {
        None => Err(p.std_off),
        Some(d) => Ok(Footer { p, dst_off: d.off, start: d.start, end: d.end }),
    })
}

fn mwd_of(r: &Rule) -> Option<(i64, i64, i64)> {
    match r.day {
        DayRule::M { m, w, d } => Some((m as i64, w as i64, d as i64)),
        _ => None,
    }
}

enum DayState {
    Panic,
    /// (is a rule day, DST state by date comparison)
    Is(bool, bool),
}

/// the code's date-level decision for the day containing `sec` (which is a UTC second on the offset
/// path and a local second on the wall path)
fn day_state(f: &Footer, sec: i64, fl: u16) -> Option<DayState> {
    let today = sec.div_euclid(86400);
    let (is_tr, is_dst);
    if has(fl, L) {
        let (st, en) = (mwd_of(&f.start)?, mwd_of(&f.end)?);
        let (y, m, _) = from_days(today);
        let doy0 = today - to_days(y, 1, 1);
        let leap = if has(fl, Y) { is_leap(from_days(sec.div_euclid(86_400_000)).0) } else { is_leap(y) };
        let before = CUM[(m - 1) as usize] + if m > 2 && leap { 1 } else { 0 };
        if doy0 - before < 0 {
            return Some(DayState::Panic);
        }
        let dom0 = doy0 - before;
        let dow = (sec / 86400 + 4).rem_euclid(7);
        let mwd = (m as i64, dom0 / 7 + 1, dow);
        is_tr = st == mwd || en == mwd;
        is_dst = if st > en { mwd < en || st <= mwd } else { st <= mwd && mwd < en };
    } else {
        let y = from_days(today).0;
        let (ds, de) = (f.start.day_number(y), f.end.day_number(y));
        is_tr = today == ds || today == de;
        is_dst = if ds > de { today < de || ds <= today } else { ds <= today && today < de };
    }
    Some(DayState::Is(is_tr, is_dst))
}

// ---- instant -> offset ----------------------------------------------------------------------

fn footer_offset(o: &Oracle, sec: i64, fl: u16) -> Option<Ans<i64>> {
    let f = match footer_of(o) {
        None => return Some(Ans::Err("Generic".into())),
        Some(Err(std)) => return Some(Ans::Ok(std)),
        Some(Ok(f)) => f,
    };
    let std_off = f.p.std_off;
    // second of the rule's day at which the change happens on the UTC line
    let thr = |is_start: bool| -> i64 {
        let r = if is_start { f.start } else { f.end };
        if has(fl, K) {
            r.time + f.dst_off // the code: rule.time - dst.offset (offset counted west)
        } else {
            r.time - if is_start { std_off } else { f.dst_off }
        }
    };
    let dst_state;
    if has(fl, L) || has(fl, H) {
        match day_state(&f, sec, fl)? {
            DayState::Panic => return Some(Ans::Panic("src/utils.rs:138".into())),
            DayState::Is(is_tr, is_dst) => {
                let time = sec.rem_euclid(86400);
                dst_state = if is_tr && time < thr(is_dst) { !is_dst } else { is_dst };
            }
        }
    } else {
        let y = from_days(sec.div_euclid(86400)).0;
        let mut ev: Vec<(i64, bool)> = vec![];
        for yy in [y - 1, y, y + 1] {
            ev.push((f.start.day_number(yy) * 86400 + thr(true), true));
            ev.push((f.end.day_number(yy) * 86400 + thr(false), false));
        }
        ev.sort();
        let mut st = !ev[0].1;
        for (x, is_start) in ev {
            if x <= sec {
                st = is_start;
            }
        }
        dst_state = st;
    }
    if has(fl, O) {
        let y = from_days(sec.div_euclid(86400)).0;
        if to_days(y, 1, 1) * 86400 > i32::MAX as i64 || to_days(y, 1, 1) * 86400 < i32::MIN as i64 {
            return Some(Ans::Panic("src/tzdb.rs:382".into()));
        }
    }
    Some(Ans::Ok(if dst_state { f.dst_off } else { std_off }))
}

/// predicted answer of `get_named_tz_offset_nanoseconds(..).offset` under the defects in `fl`
pub fn offset_model(o: &Oracle, t_ns: i128, fl: u16) -> Option<Ans<i64>> {
    let s = t_ns.div_euclid(S) as i64;
    let sub = t_ns.rem_euclid(S);
    let sec = if has(fl, T) && t_ns < 0 && sub != 0 { s + 1 } else { s };
    let file = &o.file;
    let ty = |i: usize| file.types[file.idx[i]].utoff;
    if file.times.is_empty() {
        return match &o.posix {
            Some(_) => footer_offset(o, sec, fl),
            None => Some(Ans::Ok(file.types[0].utoff)),
        };
    }
    Some(match file.times.binary_search(&sec) {
        Ok(i) => {
            if has(fl, E) {
                if i == 0 {
                    Ans::Panic("src/tzdb.rs:219".into())
                } else {
                    Ans::Ok(ty(i - 1))
                }
            } else {
                Ans::Ok(ty(i))
            }
        }
        Err(0) => Ans::Ok(if has(fl, F) { ty(0) } else { file.types[0].utoff }),
        Err(i) if i >= file.times.len() => return footer_offset(o, sec, fl),
        Err(i) => Ans::Ok(ty(i - 1)),
    })
}

pub fn sign_offset(o: &Oracle, t_ns: i128, got: &Ans<i64>) -> String {
    const GENERIC: &str = "C15/offset/mismatch";
    let want = o.offset_at(t_ns);
    if offset_model(o, t_ns, 0) != Some(Ans::Ok(want)) {
        return GENERIC.into();
    }
    for &s in offset_subsets() {
        if s != 0 && offset_model(o, t_ns, s).as_ref() == Some(got) {
            return OFFSET_PRIORITY.iter().find(|p| has(s, p.0)).map(|p| p.1).unwrap_or(GENERIC).to_string();
        }
    }
    GENERIC.into()
}

// ---- wall -> instants -----------------------------------------------------------------------

fn single(wall: i128, off: i64) -> Ans<Vec<i128>> {
    Ans::Ok(vec![wall - off as i128 * S])
}
fn both(wall: i128, a: i64, b: i64) -> Ans<Vec<i128>> {
    let mut v = vec![wall - a as i128 * S, wall - b as i128 * S];
    v.sort();
    v.dedup();
    Ans::Ok(v)
}

fn footer_wall(o: &Oracle, sec: i64, wall: i128, fl: u16) -> Option<Ans<Vec<i128>>> {
    let f = match footer_of(o) {
        None => return Some(Ans::Err("Generic".into())),
        Some(Err(std)) => return Some(single(wall, std)),
        Some(Ok(f)) => f,
    };
    let std_off = f.p.std_off;
    let delta = f.dst_off - std_off;
    let answer = |is_dst: bool| single(wall, if is_dst { f.dst_off } else { std_off });
    // inside the stretch [lo, hi) of a rule: skipped or repeated
    let in_stretch = |is_start: bool, tdiff: i64| -> Ans<Vec<i128>> {
        let skipped = if has(fl, R) { is_start } else { tdiff > 0 };
        if skipped {
            Ans::Ok(vec![])
        } else {
            both(wall, std_off, f.dst_off)
        }
    };
    if has(fl, L) || has(fl, H) {
        match day_state(&f, sec, fl)? {
            DayState::Panic => Some(Ans::Panic("src/utils.rs:138".into())),
            DayState::Is(is_tr, mut is_dst) => {
                if is_tr {
                    let time = sec.rem_euclid(86400);
                    let use_start = is_dst;
                    let ttime = if use_start { f.start.time } else { f.end.time };
                    let tdiff = if use_start { delta } else { -delta };
                    let (lo, hi) = ((ttime + tdiff).min(ttime), (ttime + tdiff).max(ttime));
                    if lo <= time && time < hi {
                        return Some(in_stretch(use_start, tdiff));
                    }
                    if !has(fl, D) {
                        is_dst = if time < lo { !use_start } else { use_start };
                    }
                }
                Some(answer(is_dst))
            }
        }
    } else {
        let y = from_days(sec.div_euclid(86400)).0;
        // (lo, hi, is_start, tdiff, rule second) on the local line
        let mut ev: Vec<(i64, i64, bool, i64, i64)> = vec![];
        for yy in [y - 1, y, y + 1] {
            for is_start in [true, false] {
                let r = if is_start { f.start } else { f.end };
                let x = r.local_seconds(yy);
                let tdiff = if is_start { delta } else { -delta };
                ev.push(((x + tdiff).min(x), (x + tdiff).max(x), is_start, tdiff, x));
            }
        }
        ev.sort();
        for e in &ev {
            if e.0 <= sec && sec < e.1 {
                return Some(in_stretch(e.2, e.3));
            }
        }
        let mut st = !ev[0].2;
        for e in &ev {
            let switch = if has(fl, D) { e.4.div_euclid(86400) * 86400 } else { e.0 };
            if switch <= sec {
                st = e.2;
            }
        }
        Some(answer(st))
    }
}

/// predicted (sorted) answer of `get_named_tz_epoch_nanoseconds` under the defects in `fl`
pub fn wall_model(o: &Oracle, wall_s: i64, sub: i32, fl: u16) -> Option<Ans<Vec<i128>>> {
    let wall = wall_s as i128 * S + sub as i128;
    let sec = if has(fl, T) && wall < 0 && sub != 0 { wall_s + 1 } else { wall_s };
    let file = &o.file;
    let n = file.times.len();
    let rec = |i: usize| &file.types[file.idx[i]];
    if n == 0 {
        return if has(fl, A) || !matches!(footer_of(o), Some(Ok(_))) {
            Some(single(wall, file.types[0].utoff))
        } else {
            footer_wall(o, sec, wall, fl)
        };
    }
    let before = |k: usize| if k == 0 { &file.types[0] } else { rec(k - 1) };
    let k: usize;
    if has(fl, A) {
        match file.times.binary_search(&sec) {
            Ok(i) => return Some(single(wall, rec(i).utoff)),
            Err(0) => return Some(single(wall, rec(0).utoff)),
            Err(i) if i >= n => return footer_wall(o, sec, wall, fl),
            Err(i) => {
                let shift = usize::from(rec(i).utoff + rec(i - 1).utoff >= 0);
                if i - shift == 0 {
                    return Some(Ans::Panic("src/tzdb.rs:314".into()));
                }
                k = i - shift;
            }
        }
    } else {
        let last = n - 1;
        let (a, b) = (before(last).utoff, rec(last).utoff);
        if o.posix.is_some() && sec >= file.times[last] + a.max(b) {
            return footer_wall(o, sec, wall, fl);
        }
        let mut found = None;
        for j in 0..n {
            if file.times[j] + before(j).utoff.min(rec(j).utoff) <= sec {
                found = Some(j);
            }
        }
        match found {
            None => return Some(single(wall, file.types[0].utoff)),
            Some(j) => k = j,
        }
    }
    let (initial, next) = (before(k), rec(k));
    let diff = sec - file.times[k];
    let (lo, hi) = (initial.utoff.min(next.utoff), initial.utoff.max(next.utoff));
    if lo <= diff && diff < hi {
        let skipped = if has(fl, B) { next.isdst } else { next.utoff > initial.utoff };
        return Some(if skipped { Ans::Ok(vec![]) } else { both(wall, next.utoff, initial.utoff) });
    }
    let use_initial = if has(fl, C) { diff <= initial.utoff } else { diff < lo };
    Some(single(wall, if use_initial { initial.utoff } else { next.utoff }))
}

pub fn sign_wall(o: &Oracle, wall_s: i64, sub: i32, got: &Ans<Vec<i128>>) -> String {
    const GENERIC: &str = "C15/wall/mismatch";
    let want = o.instants(wall_s as i128 * S + sub as i128);
    if wall_model(o, wall_s, sub, 0) != Some(Ans::Ok(want)) {
        return GENERIC.into();
    }
    for &s in wall_subsets() {
        if s != 0 && wall_model(o, wall_s, sub, s).as_ref() == Some(got) {
            return WALL_PRIORITY.iter().find(|p| has(s, p.0)).map(|p| p.1).unwrap_or(GENERIC).to_string();
        }
    }
    GENERIC.into()
}
